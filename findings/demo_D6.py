"""Defect D6: a state that calls next_state_now() twice in one call loses the second target.
Run: cd /repo && /venv/bin/python /verif/findings/demo_D6.py"""
import sys
import hal.simulation
from magicbot.state_machine import StateMachine, state
from magicbot.magic_tunable import setup_tunables
hal.simulation.pauseTiming(); hal.simulation.restartTiming()
class M(StateMachine):
    def __init__(self): self.log = []
    @state(first=True)
    def a(self):
        self.log.append("a"); self.next_state_now("b"); self.next_state_now("c")
    @state
    def b(self): self.log.append("b")
    @state
    def c(self): self.log.append("c")
m = M(); setup_tunables(m, "d6")
m.engage(); m.execute()
bad = []
if m.log != ["a", "b", "c"]:
    bad.append(f"engaged iteration with two next_state_now() ran {m.log}, expected ['a', 'b', 'c'] (1 + one per next_state_now)")
if not m.is_executing or m.current_state != "c":
    bad.append(f"after the iteration is_executing={m.is_executing} current_state={m.current_state!r}; expected running in 'c'")
for b in bad: print("DEFECT D6:", b)
sys.exit(1 if bad else 0)
