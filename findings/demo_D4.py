"""Defect D4: StatefulAutonomous.on_iteration tests 'expires < tm' without 'ran'.
Run: cd /repo && /venv/bin/python /verif/findings/demo_D4.py"""
import sys
from robotpy_ext.autonomous.stateful_autonomous import StatefulAutonomous, timed_state, state
bad = []
class A(StatefulAutonomous):
    MODE_NAME = "d4"
    def initialize(self): self.log = []
    @timed_state(duration=1.0, next_state="b", first=True)
    def a(self, tm, state_tm, initial_call): self.log.append(("a", tm, state_tm, initial_call))
    @state
    def b(self, tm, state_tm, initial_call):
        self.log.append(("b", tm, state_tm, initial_call))
        if tm >= 2.5: self.next_state("a")
m = A()
m.on_enable()
for tm in (0.0, 0.5, 1.5, 2.0, 2.5, 3.0, 3.5):
    m.on_iteration(tm)
after = [e for e in m.log if e[1] >= 3.0]
if not any(e[0] == "a" for e in after):
    bad.append(f"D4: state 'a' re-entered by next_state() at tm=2.5 is never run: {after}")
if any(e[2] < 0 for e in m.log):
    bad.append("D4: negative state_tm")
for b in bad: print("DEFECT", b)
sys.exit(1 if bad else 0)
