"""Demonstrations of defects D1 and D2 (magicbot.StateMachine) against the real code.
Run: cd /repo && /venv/bin/python /verif/findings/demo_D1_D2.py   (exit 0 = behaves as C02/C03/C04 state)
Not part of the deciding machinery - a record of the failing input only."""
import sys
import hal.simulation
from magicbot.state_machine import StateMachine, state, timed_state, default_state
from magicbot.magic_tunable import setup_tunables

hal.simulation.pauseTiming(); hal.simulation.restartTiming()
def step(s): hal.simulation.stepTimingAsync(int(s * 1e6))
bad = []

# D1: default-state fallback never calls done()
class M1(StateMachine):
    def __init__(self): self.log = []; self.dones = 0
    @state(first=True)
    def f(self, tm, initial_call): self.log.append(("f", round(tm, 3), initial_call))
    @default_state
    def d(self): self.log.append(("d",))
    def done(self): self.dones += 1; super().done()
m = M1(); setup_tunables(m, "m1")
m.engage(); m.execute(); step(0.5); m.execute()
if m.is_executing or m.current_state != "" or m.dones != 1:
    bad.append(f"D1: after engage;execute;execute is_executing={m.is_executing} current_state={m.current_state!r} done() calls={m.dones}")
step(2.0); m.engage(); m.execute()
if m.log[-1] != ("f", 0.0, True):
    bad.append(f"D1: re-engagement called {m.log[-1]} (expected ('f', 0.0, True))")
m2 = M1(); setup_tunables(m2, "m1b")
m2.engage(); m2.done(); m2.execute()
if m2.is_executing:
    bad.append("D1: engage;done;execute leaves is_executing True while only the default state runs")

# D2: cycle of a continuously engaged machine
class M2(StateMachine):
    def __init__(self): self.log = []
    @timed_state(first=True, duration=1.0)
    def only(self, tm, state_tm, initial_call): self.log.append((round(tm, 3), round(state_tm, 3), initial_call))
m = M2(); setup_tunables(m, "m2")
execs = []
for i in range(20):
    m.engage(); m.execute(); execs.append(m.is_executing); step(0.3)
if not all(execs):
    bad.append(f"D2: is_executing False after an iteration that ran a regular state: {execs}")
neg = [e for e in m.log if e[1] < 0 or e[0] < 0]
if neg:
    bad.append(f"D2: negative tm/state_tm passed to the state: {neg[:3]}")
starts = [i for i, e in enumerate(m.log) if e[2]]
gaps = [b - a for a, b in zip(starts, starts[1:])]
if len(set(gaps)) > 1 and max(gaps) - min(gaps) > 1:
    bad.append(f"D2: repetitions of the cycle differ in length (iterations between initial calls: {gaps})")
for b in bad: print("DEFECT", b)
sys.exit(1 if bad else 0)
