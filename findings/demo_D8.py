import os, tempfile, logging
os.chdir(tempfile.mkdtemp())
import hal.simulation
from magicbot.state_machine import StateMachine, timed_state, state
from magicbot.magic_tunable import setup_tunables
hal.simulation.pauseTiming(); hal.simulation.restartTiming()
def step(s): hal.simulation.stepTimingAsync(int(s*1e6))
class M(StateMachine):
    def __init__(self): self.log=[]; self.go=False
    def done(self):
        super().done(); self.log.append("done()")
    @state(first=True)
    def first(self):
        self.log.append("first"); self.next_state("hold")
    @state(must_finish=True)
    def hold(self):
        self.log.append("hold")
        if self.go:
            self.next_state_now("reg")
            self.next_state_now("reg")
    @state
    def reg(self): self.log.append("reg")
m=M(); m.logger=logging.getLogger("x"); setup_tunables(m,"m")
m.engage(); m.execute(); step(0.02)
m.engage(); m.execute(); step(0.02)
m.go=True
m.execute()   # no engage: must_finish 'hold' runs and hands over twice
print(m.log, "is_executing", m.is_executing, "current_state", repr(m.current_state))
m.log.clear(); step(0.02)
m.engage(); m.execute()
print("after re-engage:", m.log, m.is_executing, repr(m.current_state))
