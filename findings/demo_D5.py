"""Defect D5: a state named like an annotation-only StateMachine attribute is accepted.
Run: cd /repo && /venv/bin/python /verif/findings/demo_D5.py"""
import sys
from magicbot.state_machine import StateMachine, state, InvalidStateName, NoFirstStateError
bad = []
for nm in ("state_names", "state_descriptions", "logger"):
    try:
        ns = {}
        exec(f"def {nm}(self): pass", ns)
        class M(StateMachine):
            locals()[nm] = state(first=True)(ns[nm])
            locals()[nm].__set_name__  # noqa
    except InvalidStateName:
        continue
    try:
        M(); M()
        bad.append(f"D5: a state named {nm!r} (an attribute StateMachine declares) was accepted")
    except NoFirstStateError:
        bad.append(f"D5: machine whose only/first state is {nm!r} raises NoFirstStateError on its second instantiation")
for b in bad: print("DEFECT", b)
sys.exit(1 if bad else 0)
