"""Defect D3: unguarded callback sites (robotPeriodic in _do_periodics; iter_fn in selector.run).
Static demonstration is enough here, but this drives the real functions with the FMS 'attached'.
Run: cd /repo && /venv/bin/python /verif/findings/demo_D3.py"""
import sys
from unittest import mock
import wpilib
from magicbot import MagicRobot
from robotpy_ext.misc.simple_watchdog import SimpleWatchdog
bad = []
class R(MagicRobot):
    def createObjects(self): pass
    def robotPeriodic(self): raise RuntimeError("robotPeriodic fault")
r = R.__new__(R)
r.watchdog = SimpleWatchdog(0.02)
r._feedbacks = []; r._components = []; r._reset_components = []
r._MagicRobot__periodics = [(r.robotPeriodic, "robotPeriodic()")]
r._MagicRobot__last_error_report = -10.0
with mock.patch.object(wpilib.DriverStation, "isFMSAttached", return_value=True), mock.patch.object(wpilib, "reportError"):
    try:
        r._enabled_periodic()
    except RuntimeError as e:
        bad.append(f"D3: {e} escaped _enabled_periodic() with the FMS attached")
from robotpy_ext.autonomous.selector import AutonomousModeSelector
import inspect, ast, textwrap
# selector.run needs the HAL loop; show the unguarded call structurally on the real source
src = textwrap.dedent(inspect.getsource(AutonomousModeSelector.run))
t = ast.parse(src)
class V(ast.NodeVisitor):
    def __init__(s): s.tries = 0; s.un = []
    def visit_Try(s, n):
        s.tries += 1
        for b in n.body: s.visit(b)
        s.tries -= 1
        for h in n.handlers: s.visit(h)
        for b in n.orelse + n.finalbody: s.visit(b)
    def visit_Call(s, n):
        if isinstance(n.func, ast.Name) and n.func.id == "fn" and s.tries == 0: s.un.append(n.lineno)
        s.generic_visit(n)
v = V(); v.visit(t)
if v.un: bad.append(f"D3: selector.run calls fn() from iter_fn outside any try (relative line {v.un})")
for b in bad: print("DEFECT", b)
sys.exit(1 if bad else 0)
