"""Defect D7: AutonomousModeSelector.disable() leaves the mode active when its on_disable() raises.
History: start(); disable() [on_disable raises, caller survives]; periodic(); disable()
Run: cd /repo && /venv/bin/python /verif/findings/demo_D7.py"""
import sys
from unittest import mock
import wpilib
from robotpy_ext.autonomous.selector import AutonomousModeSelector
log = []
class Mode:
    MODE_NAME = "m"
    def on_enable(self): log.append("enable")
    def on_iteration(self, t): log.append("iteration")
    def on_disable(self): log.append("disable"); raise RuntimeError("on_disable fault")
s = AutonomousModeSelector.__new__(AutonomousModeSelector)
s.modes = {"m": Mode()}; s.active_mode = None; s.robot_exit = False
s.chooser = mock.Mock(); s.chooser.getSelected.return_value = s.modes["m"]
with mock.patch.object(wpilib.SmartDashboard, "getString", return_value=None):
    s.start()
    try: s.disable()
    except RuntimeError: pass
    s.periodic()
    try: s.disable()
    except RuntimeError: pass
bad = []
i = log.index("disable")
if "iteration" in log[i + 1:]: bad.append(f"on_iteration delivered after on_disable: {log}")
if log.count("disable") > 1: bad.append(f"on_disable delivered {log.count('disable')} times in one period: {log}")
for b in bad: print("DEFECT D7:", b)
sys.exit(1 if bad else 0)
