#!/usr/bin/env python3
"""Runs the checks against behaviour-preserving refactorings (false-alarm test).

Each /verif/neutral/<id>/patch.diff was written by an independent sub-agent that was asked for an edit that keeps
the behaviour (and verified that the 43 tests and a before/after harness agree).  Here the patch is applied to a
scratch worktree of /repo HEAD, the baseline tests are re-run, and every relevant check must exit 0.
usage: selftest/neutral.py [--jobs N] [--all-checks] [id ...]
"""
import argparse, concurrent.futures as cf, json, os, re, shutil, subprocess, sys, tempfile

VERIF = os.path.dirname(os.path.dirname(os.path.abspath(__file__)))
REPO, PY = "/repo", "/venv/bin/python"
ALL = [f"C{i:02d}" for i in range(1, 21)]
AREA = {"K1": ["C01", "C02", "C03", "C04", "C12", "C13"], "K2": ["C05", "C06", "C07", "C10", "C11", "C14"], "K3": ["C06", "C08", "C10", "C05", "C09", "C11"], "K4": ["C09", "C11", "C02"], "K5": ["C14", "C05", "C07"], "K6": ["C15"], "K7": ["C16", "C19", "C05", "C07"], "K8": ["C17", "C18", "C20"],
        "M1": ["C01", "C02", "C03", "C04", "C12", "C13"], "M2": ["C05", "C06", "C07", "C10", "C11", "C14"], "M3": ["C06", "C08", "C10", "C05", "C09", "C11"], "M4": ["C09", "C11", "C02"], "M5": ["C14", "C05", "C07"], "M6": ["C15"], "M7": ["C16", "C19", "C05", "C07"], "M8": ["C17", "C18", "C20"], "N1": ["C01", "C02", "C03", "C04", "C12", "C13"], "N2": ["C05", "C06", "C07", "C10", "C11", "C14"], "N3": ["C06", "C08", "C10", "C05", "C09", "C11"],
        "N4": ["C09", "C11", "C02"], "N5": ["C14", "C05", "C07"], "N6": ["C15"], "N7": ["C16", "C19", "C05", "C07"], "N8": ["C17", "C18", "C20"]}


def sh(cmd, cwd=None, env=None, timeout=3000):
    p = subprocess.run(cmd, cwd=cwd, env=env, stdout=subprocess.PIPE, stderr=subprocess.STDOUT, text=True, timeout=timeout)
    return p.returncode, p.stdout


def work(args):
    nid, checks = args
    src = os.path.join(VERIF, "neutral", nid)
    wt = tempfile.mkdtemp(prefix=f"neutwt-{nid}-", dir="/tmp"); os.rmdir(wt)
    res = {"id": nid, "checks": {}}
    try:
        rc, out = sh(["git", "-C", REPO, "worktree", "add", "--detach", "-q", wt, "HEAD"])
        rc, out = sh(["git", "apply", os.path.join(src, "patch.diff")], cwd=wt)
        if rc:
            res["error"] = "patch does not apply: " + out[-200:]
            return res
        env = dict(os.environ, PYTHONPATH=wt, PYTHONDONTWRITEBYTECODE="1")
        rct, ot = sh([PY, "-m", "pytest", "-q", "-p", "no:cacheprovider", "tests"], cwd=wt, env=env, timeout=900)
        m = re.search(r"(\d+) passed", ot)
        res["tests_passed"] = int(m.group(1)) if m else 0
        for c in checks:
            rcc, oc = sh([os.path.join(VERIF, "bin", "check"), c, "--repo", wt, "--no-evidence"], cwd=VERIF)
            first = next((l.strip()[:400] for l in oc.splitlines() if re.match(r"^  (C\d\d|CRASH)", l) or "ANALYSIS-ERROR" in l), "")
            res["checks"][c] = {"exit": rcc, "first": first}
    except Exception as e:
        res["error"] = f"{type(e).__name__}: {e}"
    finally:
        sh(["git", "-C", REPO, "worktree", "remove", "--force", wt]); shutil.rmtree(wt, ignore_errors=True)
    return res


def main():
    ap = argparse.ArgumentParser(); ap.add_argument("ids", nargs="*"); ap.add_argument("--jobs", type=int, default=6); ap.add_argument("--all-checks", action="store_true")
    a = ap.parse_args()
    jobs = []
    for nid in sorted(os.listdir(os.path.join(VERIF, "neutral"))):
        if not os.path.exists(os.path.join(VERIF, "neutral", nid, "patch.diff")) or (a.ids and nid not in a.ids):
            continue
        jobs.append((nid, ALL if a.all_checks else AREA.get(nid.split("-")[0], ALL)))
    out = []
    with cf.ThreadPoolExecutor(max_workers=a.jobs) as ex:
        for r in ex.map(work, jobs):
            out.append(r)
            bad = {c: v for c, v in r["checks"].items() if v["exit"] != 0}
            print(f"{r['id']:8s} tests={r.get('tests_passed')} alarms={ {c: v['exit'] for c, v in bad.items()} } {r.get('error', '')}", flush=True)
            for c, v in bad.items():
                print(f"      {c}: {v['first']}", flush=True)
    rows = []
    for r in out:
        meta = {}
        try:
            meta = json.load(open(os.path.join(VERIF, "neutral", r["id"], "meta.json")))
        except Exception:
            pass
        res_path = os.path.join(VERIF, "neutral", r["id"], "result.json")
        json.dump(r, open(res_path, "w"), indent=1)
        verdict = "silent" if all(v["exit"] == 0 for v in r["checks"].values()) and not r.get("error") else "; ".join(f"{c}: exit {v['exit']}" for c, v in r["checks"].items() if v["exit"])
        rows.append(f"| {r['id']} | {str(meta.get('summary', ''))[:120].replace('|', '/')} | {', '.join(r['checks'])} | {verdict or r.get('error')} |")
    if not a.ids:
        with open(os.path.join(VERIF, "neutral", "RESULTS.md"), "w") as f:
            f.write("# Behaviour-preserving refactorings: the checks must stay silent\n\n| refactoring | what was restructured | checks run | result |\n|---|---|---|---|\n" + "\n".join(rows) + "\n")
    print(sum(1 for r in out if all(v["exit"] == 0 for v in r["checks"].values()) and not r.get("error")), "of", len(out), "silent")


if __name__ == "__main__":
    main()
