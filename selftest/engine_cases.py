#!/usr/bin/env python3
"""Differential test of the abstract interpreter on concrete programs: every case is a module with f() returning
concrete values; PyAbs must compute exactly what CPython computes.  (Tests the analyser, decides no property.)
usage: selftest/engine_cases.py [case ...]"""
import glob, os, shutil, sys, tempfile, importlib.util

VERIF = os.path.dirname(os.path.dirname(os.path.abspath(__file__)))
sys.path.insert(0, VERIF)
from sa.interp import Interp, Program  # noqa: E402
from sa.values import ListV, DictV, SetV  # noqa: E402


def plain(v):
    if isinstance(v, ListV):
        return [plain(x) for x in v.items]
    if isinstance(v, SetV):
        return {plain(x) for x in v.items}
    if isinstance(v, DictV):
        return {plain(k): plain(x) for k, x in v.items.items()}
    if isinstance(v, tuple):
        return tuple(plain(x) for x in v)
    from fractions import Fraction
    if isinstance(v, Fraction):
        return float(v) if v.denominator != 1 else int(v)
    return v


def main():
    bad = 0
    names = sys.argv[1:]
    for path in sorted(glob.glob(os.path.join(VERIF, "selftest", "engine", "*.py"))):
        case = os.path.basename(path)[:-3]
        if names and case not in names:
            continue
        d = tempfile.mkdtemp(prefix="engcase-")
        try:
            os.makedirs(os.path.join(d, "magicbot"))
            open(os.path.join(d, "magicbot", "__init__.py"), "w").write("")
            shutil.copy(path, os.path.join(d, "magicbot", "m.py"))
            spec = importlib.util.spec_from_file_location("engcase_" + case, path)
            mod = importlib.util.module_from_spec(spec)
            spec.loader.exec_module(mod)
            want = mod.f()
            it = Interp(Program(d))
            try:
                got = plain(it.call(it.module("magicbot.m").ns["f"], [], {}))
            except Exception as e:  # noqa
                got = f"{type(e).__name__}: {e}"
            ok = got == want
            print(f"{'ok  ' if ok else 'FAIL'} {case}" + ("" if ok else f"\n   want {want!r}\n   got  {got!r}"))
            bad += not ok
        finally:
            shutil.rmtree(d, ignore_errors=True)
    sys.exit(1 if bad else 0)


if __name__ == "__main__":
    main()
