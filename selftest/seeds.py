#!/usr/bin/env python3
"""Confirms and records the seeded breaking changes, and runs the checks against them.

For every candidate (directory with patch.diff + demo.py [+ meta.json]):
  1. fresh scratch worktree of /repo HEAD (under /tmp, removed afterwards)
  2. demo on the clean tree must exit 0; patch must apply; the 43 baseline tests must pass; demo must exit != 0
  3. the listed checks are run with --repo <scratch> --no-evidence; exit code and fired rules are recorded
Writes /verif/seeded/<id>/{patch.diff,demo.py,meta.json} and /verif/seeded/MATRIX.md.
Not one of the registered commands; nothing is ever applied to /repo itself.
usage: selftest/seeds.py [--jobs N] [--all-checks] [id ...]
"""
import argparse
import concurrent.futures as cf
import json
import os
import re
import shutil
import subprocess
import sys
import tempfile

VERIF = os.path.dirname(os.path.dirname(os.path.abspath(__file__)))
REPO = "/repo"
PY = "/venv/bin/python"
ALL = [f"C{i:02d}" for i in range(1, 21)]
RELATED = {
    "C01": ["C04", "C02"], "C02": ["C03", "C01"], "C03": ["C02", "C04"], "C04": ["C01", "C03"], "C13": ["C04", "C01"],
    "C05": ["C16", "C06", "C10"], "C06": ["C07", "C05"], "C07": ["C16", "C10", "C06"], "C10": ["C07", "C05"], "C11": ["C07", "C09"],
    "C08": ["C06"], "C09": ["C11"], "C12": ["C03"], "C14": ["C07"], "C15": [], "C16": ["C05"], "C17": [], "C18": [], "C19": [], "C20": [],
}
HIST = {"D8": "C04", "D6": "C01", "D1": "C04", "D2": "C02", "D3": "C07", "D4": "C15", "D5": "C12", "D7": "C14"}
# seeds that need two requests in one state call are only within reach of the thorough tier
TIER_OF = {"D6": "thorough", "D8": "thorough"}
HIST_ALSO = {"D8": [], "D6": [], "D1": ["C03"], "D2": ["C03", "C04"], "D3": ["C10"], "D4": [], "D5": [], "D7": []}


def sh(cmd, cwd=None, env=None, timeout=1800):
    p = subprocess.run(cmd, cwd=cwd, env=env, shell=isinstance(cmd, str), stdout=subprocess.PIPE, stderr=subprocess.STDOUT, text=True, timeout=timeout)
    return p.returncode, p.stdout


def candidates():
    out = []
    inc = os.path.join(VERIF, "seeded", "_incoming")
    if os.path.isdir(inc):
        for prop in sorted(os.listdir(inc)):
            for v in sorted(os.listdir(os.path.join(inc, prop))):
                d = os.path.join(inc, prop, v)
                if os.path.exists(os.path.join(d, "patch.diff")):
                    out.append((f"{prop}-{v}", prop, d))
    inc2 = os.path.join(VERIF, "seeded", "_incoming2")
    if os.path.isdir(inc2):
        for prop in sorted(os.listdir(inc2)):
            for v in sorted(os.listdir(os.path.join(inc2, prop))):
                d = os.path.join(inc2, prop, v)
                if os.path.exists(os.path.join(d, "patch.diff")):
                    out.append((f"{prop}-{'C' if v == 'A' else 'D'}", prop, d))
    inc3 = os.path.join(VERIF, "seeded", "_incoming3")
    if os.path.isdir(inc3):
        for prop in sorted(os.listdir(inc3)):
            for v in sorted(os.listdir(os.path.join(inc3, prop))):
                d = os.path.join(inc3, prop, v)
                if os.path.exists(os.path.join(d, "patch.diff")):
                    out.append((f"{prop}-{'E' if v == 'A' else 'F'}", prop, d))
    inc4 = os.path.join(VERIF, "seeded", "_incoming4")
    if os.path.isdir(inc4):
        for prop in sorted(os.listdir(inc4)):
            for v in sorted(os.listdir(os.path.join(inc4, prop))):
                d = os.path.join(inc4, prop, v)
                if os.path.exists(os.path.join(d, "patch.diff")):
                    out.append((f"{prop}-{'G' if v == 'A' else 'H'}", prop, d))
    inc5 = os.path.join(VERIF, "seeded", "_incoming5")
    if os.path.isdir(inc5):
        for prop in sorted(os.listdir(inc5)):
            for v in sorted(os.listdir(os.path.join(inc5, prop))):
                d = os.path.join(inc5, prop, v)
                if os.path.exists(os.path.join(d, "patch.diff")):
                    out.append((f"{prop}-{'I' if v == 'A' else 'J'}", prop, d))
    for h, prop in HIST.items():
        d = os.path.join(VERIF, "seeded", h)
        if os.path.exists(os.path.join(d, "patch.diff")):
            out.append((h, prop, d))
    for name in sorted(os.listdir(os.path.join(VERIF, "seeded"))):
        d = os.path.join(VERIF, "seeded", name)
        if re.match(r"^C\d\d-\w+$", name) and os.path.exists(os.path.join(d, "patch.diff")) and not any(c[0] == name for c in out):
            out.append((name, name[:3], d))
    return out


def work(args):
    sid, prop, src, checks = args
    wt = tempfile.mkdtemp(prefix=f"seedwt-{sid}-", dir="/tmp")
    os.rmdir(wt)
    res = {"id": sid, "property": prop, "source": os.path.relpath(src, VERIF)}
    try:
        rc, out = sh(["git", "-C", REPO, "worktree", "add", "--detach", "-q", wt, "HEAD"])
        if rc:
            res["error"] = "worktree: " + out
            return res
        env = dict(os.environ, PYTHONPATH=wt, PYTHONDONTWRITEBYTECODE="1")
        demo = os.path.join(src, "demo.py")
        rc0, o0 = sh([PY, demo], cwd=wt, env=env, timeout=600)
        res["demo_clean_exit"] = rc0
        rc, out = sh(["git", "apply", os.path.join(src, "patch.diff")], cwd=wt)
        if rc:
            res["error"] = "patch does not apply: " + out[-300:]
            return res
        rct, ot = sh([PY, "-m", "pytest", "-q", "-p", "no:cacheprovider", "tests"], cwd=wt, env=env, timeout=900)
        m = re.search(r"(\d+) passed", ot)
        res["tests_passed"] = int(m.group(1)) if m else 0
        res["tests_exit"] = rct
        rc1, o1 = sh([PY, demo], cwd=wt, env=env, timeout=600)
        res["demo_patched_exit"] = rc1
        res["demo_output"] = [l for l in o1.splitlines() if "WARNING conda" not in l][-3:]
        res["confirmed"] = rc0 == 0 and rc1 != 0 and rct == 0 and res["tests_passed"] >= 43
        res["checks"] = {}
        for c in checks:
            rcc, oc = sh([os.path.join(VERIF, "bin", "check"), c, "--repo", wt, "--no-evidence"] + (["--tier", TIER_OF[sid]] if sid in TIER_OF else []), cwd=VERIF, timeout=3000)
            rules = sorted(set(re.findall(r"^  ((?:C\d\d|CRASH|ISO)[.\w]*):", oc, re.M)))
            first = next((l.strip()[:300] for l in oc.splitlines() if re.match(r"^  (C\d\d|CRASH|ISO)", l)), "")
            res["checks"][c] = {"exit": rcc, "rules": rules, "first": first if rcc == 1 else ("" if rcc == 0 else oc.strip().splitlines()[-1][:300])}
    except Exception as e:  # keep going with the other seeds
        res["error"] = f"{type(e).__name__}: {e}"
    finally:
        sh(["git", "-C", REPO, "worktree", "remove", "--force", wt])
        shutil.rmtree(wt, ignore_errors=True)
        for f in ("networktables.json",):
            pass
    return res


def main():
    ap = argparse.ArgumentParser()
    ap.add_argument("ids", nargs="*")
    ap.add_argument("--jobs", type=int, default=6)
    ap.add_argument("--all-checks", action="store_true")
    a = ap.parse_args()
    jobs = []
    for sid, prop, src in candidates():
        if a.ids and sid not in a.ids:
            continue
        if a.all_checks:
            checks = ALL
        else:
            checks = [prop] + [c for c in (HIST_ALSO.get(sid) if sid in HIST else RELATED.get(prop, [])) if c != prop]
        jobs.append((sid, prop, src, checks))
    results = []
    with cf.ThreadPoolExecutor(max_workers=a.jobs) as ex:
        for r in ex.map(work, jobs):
            results.append(r)
            det = [c for c, v in r.get("checks", {}).items() if v["exit"] == 1]
            print(f"{r['id']:8s} confirmed={r.get('confirmed')} tests={r.get('tests_passed')} demo {r.get('demo_clean_exit')}->{r.get('demo_patched_exit')} detected_by={det} {r.get('error', '')}", flush=True)
    # record
    for r in results:
        if not r.get("confirmed"):
            continue
        src = os.path.join(VERIF, r["source"])
        dst = os.path.join(VERIF, "seeded", r["id"])
        os.makedirs(dst, exist_ok=True)
        if os.path.abspath(src) != os.path.abspath(dst):
            shutil.copy(os.path.join(src, "patch.diff"), os.path.join(dst, "patch.diff"))
            shutil.copy(os.path.join(src, "demo.py"), os.path.join(dst, "demo.py"))
        meta = {}
        mp = os.path.join(src, "meta.json")
        if os.path.exists(mp):
            try:
                meta = json.load(open(mp))
            except Exception:
                meta = {}
        old = {}
        if os.path.exists(os.path.join(dst, "meta.json")):
            try:
                old = json.load(open(os.path.join(dst, "meta.json")))
            except Exception:
                old = {}
        checks = dict(old.get("checks_run", {}))
        checks.update(r["checks"])
        meta_out = {
            "id": r["id"], "property": r["property"],
            "summary": meta.get("summary", old.get("summary", "")), "needs": meta.get("needs", old.get("needs", "")), "files": meta.get("files", old.get("files", [])),
            "origin": "reverse of a fix: commit in /repo (historic defect)" if r["id"] in HIST else "independent sub-agent given only the property text",
            "confirmed": {"demo_exit_clean": r["demo_clean_exit"], "demo_exit_patched": r["demo_patched_exit"], "baseline_tests_passed_with_patch": r["tests_passed"], "demo_output": r.get("demo_output")},
            "ran": ["git worktree add <scratch> HEAD", "python demo.py (clean) -> 0", "git apply patch.diff", "pytest tests -> 43 passed", "python demo.py -> non-zero", "bin/check <id> --repo <scratch> --no-evidence"],
            "checks_run": checks,
            "detected_by": sorted(c for c, v in checks.items() if v["exit"] == 1),
        }
        json.dump(meta_out, open(os.path.join(dst, "meta.json"), "w"), indent=1)
    # matrix over everything recorded
    rows = []
    for name in sorted(os.listdir(os.path.join(VERIF, "seeded"))):
        mp = os.path.join(VERIF, "seeded", name, "meta.json")
        if os.path.exists(mp):
            m = json.load(open(mp))
            own = m["checks_run"].get(m["property"], {})
            rows.append(f"| {m['id']} | {m['property']} | {m.get('summary', '')[:110].replace('|', '/')} | {'yes: ' + ', '.join(own.get('rules', [])) if own.get('exit') == 1 else ('ANALYSIS-ERROR' if own.get('exit') == 2 else 'no')} | {', '.join(c for c in m['detected_by'] if c != m['property'])} |")
    with open(os.path.join(VERIF, "seeded", "MATRIX.md"), "w") as f:
        f.write("# Seeded changes and the checks that catch them\n\nEvery row was confirmed in a scratch worktree: the 43 baseline tests pass with the patch, the demo passes without and fails with it.\n\n| seed | breaks | change | caught by its own check (rules) | also caught by |\n|---|---|---|---|---|\n" + "\n".join(rows) + "\n")
    bad = [r for r in results if not r.get("confirmed")]
    print(f"{len(results)} seeds, {len(bad)} not confirmed: {[r['id'] for r in bad]}")


if __name__ == "__main__":
    main()
