#!/bin/sh
# all quick checks on a tree (default /repo), in parallel, no evidence written: prints exit code and wall time per check
repo=${1:-/repo}
here=$(cd "$(dirname "$0")/.." && pwd)
for i in 01 02 03 04 05 06 07 08 09 10 11 12 13 14 15 16 17 18 19 20; do echo C$i; done | \
  xargs -P ${JOBS:-10} -I{} sh -c "s=\$(date +%s); out=\$($here/bin/check {} --repo $repo --no-evidence ${TIER:+--tier $TIER} 2>&1); rc=\$?; e=\$(date +%s); echo \"{} exit=\$rc \$((e-s))s\"; if [ \$rc -ne 0 ]; then echo \"\$out\" | grep -v WARNING | grep -m3 'ANALYSIS-ERROR\|^  C[0-9][0-9]\|^  ISO\|^  CRASH\|Traceback' | cut -c1-400; fi" | sort
