import operator


class S:
    def __init__(self, serial, name):
        self.serial = serial
        self.name = name


def f():
    xs = [S(3, "c"), S(1, "a"), S(2, "b")]
    ys = sorted(xs, key=operator.attrgetter("serial"), reverse=True)
    xs.sort(key=lambda s: s.serial)
    zs = [("b", 2), ("a", 2), ("c", 1)]
    zs.sort(key=operator.itemgetter(1))
    return ([s.name for s in xs], [s.name for s in ys], zs, sorted([3, 1, 2], reverse=True), sorted(["b", "a"]))
