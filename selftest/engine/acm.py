import contextlib


class Guard(contextlib.AbstractContextManager):
    hit = False

    def __exit__(self, t, v, tb):
        if t is None:
            return False
        self.hit = True
        return True


def f():
    with Guard() as g:
        pass
    a = g.hit
    with Guard() as h:
        raise ValueError("x")
    return (a, h.hit, isinstance(h, Guard))
