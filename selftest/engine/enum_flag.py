import enum


class R(enum.Flag):
    A = enum.auto()
    B = enum.auto()


I = R(0)


class C(enum.Enum):
    X = 1
    Y = enum.auto()


def f():
    r = I
    r |= R.A
    a = R.A in r
    r |= R.B
    r &= ~R.A
    return (a, R.A in r, R.B in r, bool(r), r is R.B, C(2) is C.Y, C.X.name, R.A.value, R.B.value, bool(I), (R.A | R.B).value)
