def counter():
    n = 0
    seen = []

    def bump(k=1):
        nonlocal n
        n += k
        seen.append(n)
        return n

    def peek():
        return n

    return bump, peek, seen


def f():
    b, p, s = counter()
    b()
    b(3)
    b2, p2, s2 = counter()
    b2(10)
    return (p(), p2(), s, s2)
