from collections import deque
from itertools import accumulate


def last(xs):
    return deque(accumulate(xs, lambda a, b: a * 2 + b, initial=0), maxlen=1).pop()


def f():
    d = deque([1, 2, 3], maxlen=2)
    d.append(4)
    d.appendleft(0)
    e = deque()
    e.extend("abc")
    e.rotate(1)
    return (list(d), len(d), last([]), last([1, 2, 3]), list(e), e.popleft(), bool(deque()), 2 in deque([1, 2]), e[0])
