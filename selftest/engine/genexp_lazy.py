LOG = []


def probe(x):
    LOG.append(("probe", x))
    return x > 1


def f():
    LOG.clear()
    r1 = any(probe(x) for x in [0, 1, 2, 3])
    r2 = all(probe(x) for x in [2, 0, 5])
    g = (probe(x) for x in [5, 0])
    LOG.append("made")
    first = next(g)
    rest = list(g)
    s = sum(x * 2 for x in range(4) if x % 2)
    d = dict((k, len(k)) for k in ("a", "bb"))
    nested = [(a, b) for a in range(2) for b in (c for c in "xy")]
    return (r1, r2, first, rest, s, d, nested, list(LOG))
