def f():
    a = {1, 2, 3}
    b = set([2, 3, 4])
    d = {"x": 1, "y": 2}
    return (sorted(a - b), sorted(a & b), sorted(a | b), sorted(a ^ b), sorted(set(d) - {"x"}), bool(set(d) - set(d)))
