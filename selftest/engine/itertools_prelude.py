import itertools
import operator

LOG = []


def odd(x):
    LOG.append(("pred", x))
    return x % 2 == 1


class Bag:
    def __init__(self, *xs):
        self.xs = list(xs)

    def __iter__(self):
        for x in self.xs:
            yield x * 10


def f():
    LOG.clear()
    out = []
    for x in itertools.filterfalse(odd, [1, 2, 3, 4]):
        LOG.append(("body", x))
    out.append(list(itertools.accumulate([1, 2, 3, 4])))
    out.append(list(itertools.accumulate([1, 2, 3], operator.mul, initial=10)))
    out.append(list(itertools.chain([1], (2, 3), Bag(4))))
    out.append(list(itertools.chain.from_iterable([[1, 2], [3]])))
    out.append(list(itertools.islice(range(10), 2, 8, 3)))
    out.append(list(itertools.islice("abcdef", 2)))
    out.append(list(itertools.pairwise([1, 2, 3])))
    out.append(list(itertools.takewhile(lambda v: v < 3, [1, 2, 3, 1])))
    out.append(list(itertools.dropwhile(lambda v: v < 3, [1, 2, 3, 1])))
    out.append(list(itertools.starmap(operator.add, [(1, 2), (3, 4)])))
    out.append(list(itertools.zip_longest([1, 2], "a", fillvalue=0)))
    out.append(list(itertools.product([1, 2], "ab")))
    out.append(list(itertools.repeat("x", 2)))
    out.append(list(itertools.compress("abc", [1, 0, 1])))
    out.append(list(zip(itertools.count(5), "ab")))
    out.append([b for b in Bag(1, 2)])
    out.append(next(iter(Bag(7))))
    return (out, list(LOG))
