import contextlib

LOG = []


def ticker(n):
    LOG.append("start")
    try:
        for i in range(n):
            LOG.append(("before", i))
            got = yield i
            LOG.append(("after", i, got))
    finally:
        LOG.append("cleanup")
    return "fin"


def outer(n):
    r = yield from ticker(n)
    LOG.append(("inner returned", r))
    yield 99


@contextlib.contextmanager
def guard(tag):
    LOG.append(("enter", tag))
    try:
        yield tag.upper()
    except ValueError as e:
        LOG.append(("swallowed", str(e.args[0])))
    finally:
        LOG.append(("exit", tag))


class K:
    def __init__(self):
        self.n = 0

    def each(self):
        while self.n < 3:
            self.n += 1
            yield self.n
            LOG.append(("resumed", self.n))


def f():
    LOG.clear()
    out = []
    for x in ticker(2):
        LOG.append(("body", x))
    g = ticker(3)
    out.append(next(g))
    out.append(g.send("s"))
    g.close()
    for x in ticker(5):
        if x == 1:
            break
    out.append(list(outer(1)))
    with guard("a") as t:
        out.append(t)
    with guard("b"):
        raise ValueError("boom")
    try:
        with guard("c"):
            raise KeyError("k")
    except KeyError:
        out.append("keyerror passed")
    with contextlib.suppress(KeyError):
        raise KeyError("x")
    k = K()
    for v in k.each():
        LOG.append(("k body", v))
    it = iter(ticker(1))
    out.append(next(it, "dflt"))
    out.append(next(it, "dflt"))
    return (out, list(LOG))
