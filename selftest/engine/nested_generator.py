def outer(n):
    log = []

    def ticks():
        for i in range(n):
            yield i

    for t in ticks():
        log.append(t)
    return log


def f():
    return (outer(3), type(outer(1)).__name__)
