from collections import ChainMap


class A:
    x = 1
    y = 2


class B(A):
    y = 20
    z = 30


def f():
    cm = ChainMap(*(vars(k) for k in B.__mro__))
    names = [n for n in cm if not n.startswith("__")]
    pairs = [(n, v) for n, v in cm.items() if not n.startswith("__")]
    c2 = ChainMap({"a": 1}, {"a": 2, "b": 3})
    return (names, pairs, c2["a"], c2["b"], list(c2), len(c2), "b" in c2, c2.get("q", 9), list(c2.parents.items()))
