import collections
import typing


class Rec(typing.NamedTuple):
    """doc"""

    comp: typing.Any
    defaults: dict
    scale: int = 2

    def total(self):
        return sum(self.defaults.values()) * self.scale

    @property
    def first(self):
        return self[0]

    @classmethod
    def empty(cls, c):
        return cls(c, {})


P = collections.namedtuple("P", "x y")


def f():
    r = Rec("c", {"a": 1, "b": 2})
    a, b, c = r
    r2 = r._replace(scale=3)
    e = Rec.empty("z")
    p = P(1, y=5)
    d = {r.comp: 1, p: 2}
    return (r.comp, r[1]["a"], r.scale, len(r), a, c, r.total(), r2.total(), r.first, bool(e.defaults), e.scale,
            p.x + p.y, p == (1, 5), isinstance(r, Rec), isinstance(r, tuple), Rec._fields if hasattr(Rec, "_fields") else None, r._fields, d[p], r2 == r, list(p))
