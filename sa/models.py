"""Models of Python builtins, the standard library and third-party handles (DESIGN.md section 4).

Everything here is part of the trusted base: these functions say what `isinstance`, `dict.update`,
`inspect.signature`, a clock read ... do.  Nothing here knows anything about the repository.
"""
from __future__ import annotations

import ast
import os
from fractions import Fraction

from .values import (
    App, BoundMethod, BuiltinV, ClassMethodV, ClassV, Cond, DictV, Ext, FuncV, IterV, Lin, ListOf, ListV,
    ModuleV, Obj, PartialV, PropertyV, SetV, StaticV, Sym, SymStr, Unsupported, cmp_cond, num_add,
    show, str_concat, vkey,
)

MISSING = None  # set from interp at import time (shared sentinel)

PURE_PATH_FUNCS = {"os.path." + n for n in ("basename", "dirname", "splitext", "split", "join", "normpath", "isabs")}

CLOCKS = {
    "wpilib.Timer.getFPGATimestamp": "s",
    "time.monotonic": "s",
    "wpilib.RobotController.getFPGATime": "us",
}


def _missing():
    from .interp import MISSING as M

    return M


def ext_kind(v):
    if isinstance(v, Ext) and v.path in CLOCKS:
        return "clock:" + CLOCKS[v.path]
    return None


# ----------------------------------------------------------------------------------------
# builtin functions
# ----------------------------------------------------------------------------------------
def B(name, is_method=False):
    def deco(f):
        b = BuiltinV(name, f)
        b.is_method = is_method
        return b

    return deco


TYPE_NAMES = ("bool", "int", "float", "str", "bytes", "tuple", "list", "dict", "set", "type", "object", "Sequence", "NoneType", "frozenset")


def type_of(interp, v, node=None):
    b = interp.builtins
    if isinstance(v, Obj):
        return v.cls
    if isinstance(v, ClassV):
        return b["type"]
    if isinstance(v, bool):
        return b["bool"]
    if isinstance(v, int):
        return b["int"]
    if isinstance(v, Fraction):
        return b["float"]
    if isinstance(v, (str, SymStr)):
        return b["str"]
    if isinstance(v, bytes):
        return b["bytes"]
    if isinstance(v, tuple):
        return b["tuple"]
    if isinstance(v, (ListV, ListOf)):
        return b["list"]
    if isinstance(v, DictV):
        return b["dict"]
    if v is None:
        return b["NoneType"]
    if isinstance(v, Ext):
        q = v
        while q is not None:
            if getattr(q, "shared_cls", None) is not None and ".__class__" not in v.attrs:
                return q.shared_cls  # variant: every object stored in this start-up list is of one class
            q = q.parent
        return interp.ext_child(v, ".__class__", role="class")
    if isinstance(v, Sym):
        if v.kind == "str":
            return b["str"]
        return Ext(f"type({v.name})", "user", role="class")
    if isinstance(v, (Lin, App)):
        return Ext(f"type({v!r})", "lib", role="class")
    raise Unsupported(f"type() of {v!r}", node)


def isinstance_(interp, v, t, node=None):
    v = interp.force(v, node)
    if isinstance(t, tuple):
        unknown = None
        for x in t:
            r = isinstance_(interp, v, x, node)
            if r is True:
                return True
            if r is not False:
                unknown = r
        if unknown is not None:
            return interp.truth(unknown, node)
        return False
    if isinstance(t, ClassV):
        if isinstance(v, Obj) or type(v).__name__ == "NTuple":
            return v.cls.is_subclass(t)
        if isinstance(v, Ext):
            if v.role in ("module", "function"):
                return False
            return Cond(("isinstance", ("ext", v.uid), v.path, t.qualname))
        if isinstance(v, Sym) and v.kind in ("any", "obj"):
            return Cond(("isinstance", v.key(), t.qualname))
        return False
    if isinstance(t, BuiltinV) and t.name in TYPE_NAMES:
        n = t.name
        if isinstance(v, (Ext,)):
            if n == "type" and v.role == "class":
                return True
            if n == "object":
                return True
            return Cond(("isinstance", ("ext", v.uid), v.path, n))
        if isinstance(v, Sym):
            if v.kind == "str":
                return n in ("str", "Sequence", "object")
            if v.kind == "num":
                if n in ("int", "float"):
                    return Cond(("isinstance", v.key(), n))
                return n == "object"
            if v.kind == "bool":
                return n in ("bool", "int", "object")
            return Cond(("isinstance", v.key(), n))
        if n == "object":
            return True
        if n == "bool":
            return isinstance(v, bool)
        if n == "int":
            return isinstance(v, int)
        if n == "float":
            return isinstance(v, Fraction)
        if n == "str":
            return isinstance(v, (str, SymStr))
        if n == "bytes":
            return isinstance(v, bytes)
        if n == "tuple":
            return isinstance(v, tuple)
        if n == "list":
            return isinstance(v, (ListV, ListOf))
        if n == "dict":
            return isinstance(v, DictV)
        if n == "set":
            return isinstance(v, SetV)
        if n == "type":
            return isinstance(v, ClassV) or (isinstance(v, BuiltinV) and v.name in TYPE_NAMES)
        if n == "Sequence":
            return isinstance(v, (str, SymStr, bytes, tuple, ListV, ListOf))
        if n == "NoneType":
            return v is None
        return False
    if isinstance(t, Ext):
        if isinstance(v, (Ext, Sym)):
            return Cond(("isinstance", vkey(v), t.path))
        # a concrete value against a third-party class: property/tunable style checks
        return Cond(("isinstance", vkey(v), t.path)) if isinstance(v, Obj) and v.cls.ext_bases() else False
    if isinstance(t, BuiltinV) and t.name == "property":
        if isinstance(v, (Ext, Sym)):
            return Cond(("isinstance", vkey(v), "property"))
        return isinstance(v, PropertyV)
    raise Unsupported(f"isinstance against {t!r}", node)


class PropertyTypeMarker:
    pass


class CodeV:
    """result of compile(<constant string>, ..., 'eval')"""

    def __init__(self, src):
        self.src = src

    def __repr__(self):
        return f"<code {self.src!r}>"

    def __deepcopy__(self, memo):
        return self


def make_builtins(interp):
    b = {}

    def reg(name, is_method=False):
        def deco(f):
            v = BuiltinV(name, f)
            v.is_method = is_method
            b[name] = v
            return f

        return deco

    for n in TYPE_NAMES:
        b[n] = BuiltinV(n)

    # ---- exception hierarchy
    def exc(name, *bases):
        c = ClassV(name, [b[x] for x in bases], {}, None, None, name)
        c.builtin_exc = True
        b[name] = c
        return c

    exc("BaseException")
    exc("Exception", "BaseException")
    for n in ("ValueError", "TypeError", "RuntimeError", "AttributeError", "LookupError", "ImportError", "ArithmeticError", "AssertionError", "NameError", "OSError", "StopIteration"):
        exc(n, "Exception")
    exc("KeyError", "LookupError")
    exc("IndexError", "LookupError")
    exc("ZeroDivisionError", "ArithmeticError")
    exc("OverflowError", "ArithmeticError")
    exc("NotImplementedError", "RuntimeError")
    exc("ModuleNotFoundError", "ImportError")
    exc("UnboundLocalError", "NameError")
    exc("UserFault", "BaseException")  # an arbitrary exception raised by user code: the most general kind (only `except:` / `except BaseException` see it)
    exc("GeneratorExit", "BaseException")
    exc("KeyboardInterrupt", "BaseException")
    exc("SystemExit", "BaseException")
    b["NotImplemented"] = Sym("NotImplemented", "any", uid=0)
    b["Ellipsis"] = Sym("...", "any", uid=0)
    b["__debug__"] = True

    def set_impl(name, f):
        b[name].impl = f

    # ---- type constructors
    def t_str(i, a, k, n):
        if not a:
            return ""
        return i.to_str(a[0], n)

    set_impl("str", t_str)

    def t_int(i, a, k, n):
        v = a[0] if a else 0
        if isinstance(v, bool):
            return int(v)
        if isinstance(v, int):
            return v
        if isinstance(v, Fraction):
            return int(v)
        if isinstance(v, str):
            try:
                return int(v)
            except ValueError:
                from .interp import AbsRaise

                raise AbsRaise(i.make_exc("ValueError", "int()"), i.site(n), True)
        return App("int", (i.as_num(v, n),))

    set_impl("int", t_int)

    def t_float(i, a, k, n):
        v = a[0] if a else 0
        if isinstance(v, (int, Fraction)) and not isinstance(v, bool):
            return Fraction(v)
        return i.as_num(v, n)

    set_impl("float", t_float)

    def t_bool(i, a, k, n):
        if not a:
            return False
        v = a[0]
        if isinstance(v, Cond):
            return v
        return i.truth(v, n)

    set_impl("bool", t_bool)

    def t_tuple(i, a, k, n):
        if not a:
            return ()
        kind, items = i.iterate(a[0], n)
        if kind != "known":
            raise Unsupported("tuple() of unknown iterable", n)
        return tuple(items)

    set_impl("tuple", t_tuple)

    def t_list(i, a, k, n):
        if not a:
            return ListV()
        kind, items = i.iterate(a[0], n)
        if kind != "known":
            if isinstance(items, ListOf):
                return items
            lo = ListOf(("elem-of", items), label=f"list({show(items)})")
            lo.source = items
            return lo
        return ListV(items)

    set_impl("list", t_list)

    def t_set(i, a, k, n):
        if not a:
            return SetV()
        kind, items = i.iterate(a[0], n)
        if kind != "known":
            return a[0]
        out = []
        for x in items:
            if not any(i.equal(x, y, n) is True for y in out):
                out.append(x)
        return SetV(out)

    set_impl("set", t_set)

    def t_frozenset(i, a, k, n):
        r = t_set(i, a, k, n)
        if isinstance(r, SetV) and all(isinstance(x, (str, int, bool, bytes, type(None))) for x in r.items):
            return frozenset(r.items)
        return r

    set_impl("frozenset", t_frozenset)

    def t_dict(i, a, k, n):
        d = DictV()
        if a:
            src = a[0]
            if isinstance(src, DictV):
                d.items.update(src.items)
            else:
                kind, items = i.iterate(src, n)
                if kind != "known":
                    raise Unsupported("dict() of unknown", n)
                for kv in items:
                    kk, vv = i.unpack(kv, 2, n)
                    d.items[i.hashable(kk, n)] = vv
        for kk, vv in k.items():
            d.items[kk] = vv
        return d

    set_impl("dict", t_dict)

    def t_type(i, a, k, n):
        if len(a) == 1:
            return type_of(i, a[0], n)
        raise Unsupported("3-argument type()", n)

    set_impl("type", t_type)

    def t_object(i, a, k, n):
        return Obj(ClassV("object", [], {}, None, None, "object"))

    set_impl("object", t_object)

    # ---- functions
    @reg("isinstance")
    def _(i, a, k, n):
        return isinstance_(i, a[0], a[1], n)

    @reg("issubclass")
    def _(i, a, k, n):
        c, d = a
        if isinstance(d, tuple):
            return any(i.truth(b["issubclass"].impl(i, [c, x], {}, n), n) for x in d)
        if isinstance(c, ClassV) and isinstance(d, ClassV):
            return c.is_subclass(d)
        if isinstance(c, ClassV) and isinstance(d, BuiltinV) and d.name == "object":
            return True
        if isinstance(c, (Ext, Sym)) or isinstance(d, (Ext, Sym)):
            return Cond(("issubclass", vkey(c), vkey(d)))
        return False

    @reg("hasattr")
    def _(i, a, k, n):
        name = a[1]
        if not isinstance(name, str):
            return Cond(("hasattr", vkey(a[0]), vkey(name)))
        return i.hasattr(a[0], name, n)

    @reg("getattr")
    def _(i, a, k, n):
        from .interp import MISSING as M

        obj, name = a[0], a[1]
        if not isinstance(name, str):
            if isinstance(obj, Ext):
                e = i.ext_child(obj, ".{" + show(name) + "}", maybe_none=len(a) > 2 and a[2] is None)
                return e
            if isinstance(obj, Obj) and getattr(obj.cls, "open_attrs", None) is not None:
                return obj.cls.open_attrs(i, obj, name, n)
            if isinstance(obj, ClassV) and getattr(obj, "abstract_user", False):
                key = "$userattr:" + show(name)
                if key not in obj.ns:
                    obj.ns[key] = Ext(f"{obj.name}.{{{show(name)}}}", "user", role="result", maybe_none=len(a) > 2 and a[2] is None)
                return obj.ns[key]
            raise Unsupported(f"getattr with symbolic name {name!r} on {obj!r}", n)
        if isinstance(obj, Ext):
            key = "." + name
            if key in obj.attrs:
                return obj.attrs[key]
            if len(a) > 2:
                # attribute of a user/third-party object that may be absent -> default
                e = Ext(obj.path + key, obj.origin, parent=obj, maybe_none=a[2] is None)
                e.getattr_default = a[2]
                r = obj_default_attr(i, obj, name, a[2], e, n)
                obj.attrs[key] = r
                return r
            return i.getattr(obj, name, n)
        if len(a) > 2:
            return i.getattr(obj, name, n, default=a[2])
        return i.getattr(obj, name, n)

    @reg("setattr")
    def _(i, a, k, n):
        obj, name, v = a
        if not isinstance(name, str):
            i.emit("setattr_sym", show(name), [obj, name, v], node=n)
            if isinstance(obj, Obj):
                obj.fields[name] = v
            return None
        i.setattr(obj, name, v, n)

    @reg("callable")
    def _(i, a, k, n):
        v = a[0]
        if isinstance(v, (FuncV, BoundMethod, BuiltinV, ClassV, PartialV)):
            return True
        if isinstance(v, Ext):
            if v.maybe_none:
                return Cond(("isnone", ("ext", v.uid), v.path), False)
            return Cond(("callable", ("ext", v.uid), v.path)) if v.role not in ("userfn", "function", "class") else True
        if isinstance(v, Obj):
            return v.cls.lookup("__call__")[1] is not None
        return False

    @reg("len")
    def _(i, a, k, n):
        v = a[0]
        if isinstance(v, (str, bytes, tuple)):
            return len(v)
        if isinstance(v, (ListV, SetV)):
            if any(isinstance(x, tuple) and len(x) == 2 and x[0] == "*" for x in v.items):
                return Sym(f"len#{v.uid}", "num")
            return len(v.items)
        if isinstance(v, DictV):
            return len(v.items)
        if isinstance(v, SymStr) or (isinstance(v, Sym) and v.kind == "str"):
            # length of a partly symbolic string: literal parts counted, symbolic parts as length symbols
            total = 0
            for part in (v.parts if isinstance(v, SymStr) else (v,)):
                total = num_add(total, len(part) if isinstance(part, str) else Sym(f"len({show(part)})", "num", tag=("len", vkey(part))))
            return total
        if isinstance(v, ListOf):
            return i.generic_len(v, n)  # the length every loop over this list uses on this path
        if isinstance(v, Ext):
            return Sym(f"len({v.path})", "num", tag=("len", v.uid), uid=v.uid)
        if isinstance(v, Obj):
            c, f = v.cls.lookup("__len__")
            if f is not None:
                return i.call(i.bind(f, v, c), [], {}, n)
        raise Unsupported(f"len of {v!r}", n)

    @reg("enumerate")
    def _(i, a, k, n):
        kind, items = i.iterate(a[0], n)
        start = a[1] if len(a) > 1 else k.get("start", 0)
        if kind == "known":
            return ListV([(start + j, x) for j, x in enumerate(items)])
        lo = ListOf(("enumerate", items), label=f"enumerate({show(items)})")
        lo.source = items
        lo.derived = "enumerate"
        return lo

    @reg("zip")
    def _(i, a, k, n):
        inf = [isinstance(x, IterV) and isinstance(x.items, _Counter) for x in a]
        cols = [None if f else i.materialize(x, n) for x, f in zip(a, inf)]
        if all(inf):
            raise Unsupported("zip of infinite iterators only", n)
        nmin = min(len(c) for c in cols if c is not None)
        for j, (x, f) in enumerate(zip(a, inf)):
            if f:
                cols[j] = [x.items[x.pos + q] for q in range(nmin)]
                x.pos += nmin
        return ListV([tuple(t) for t in zip(*cols)])

    @reg("range")
    def _(i, a, k, n):
        if all(isinstance(x, int) for x in a):
            return ListV(list(range(*a)))
        raise Unsupported("range of symbolic", n)

    @reg("reversed")
    def _(i, a, k, n):
        kind, items = i.iterate(a[0], n)
        if kind == "known":
            return ListV(list(reversed(items)))
        lo = ListOf(getattr(items, "elem", ("elem-of", items)), label=f"reversed({show(items)})")
        lo.source = items
        lo.derived = "reversed"
        i.emit("reorder", "reversed", [items], node=n)
        return lo

    @reg("sorted")
    def _(i, a, k, n):
        kind, items = i.iterate(a[0], n)
        if kind == "known":
            return ListV(sort_items(i, items, k, n, "sorted"))
        lo = ListOf(getattr(items, "elem", ("elem-of", items)), label=f"sorted({show(items)})")
        lo.source = items
        lo.derived = "sorted"
        i.emit("reorder", "sorted", [items], node=n)
        return lo

    @reg("max")
    def _(i, a, k, n):
        return _minmax(i, "max", a, n)

    @reg("min")
    def _(i, a, k, n):
        return _minmax(i, "min", a, n)

    @reg("abs")
    def _(i, a, k, n):
        v = i.as_num(a[0], n)
        if isinstance(v, (int, Fraction)):
            return abs(v)
        return App("abs", (v,))

    @reg("round")
    def _(i, a, k, n):
        return App("round", tuple(i.as_num(x, n) for x in a))

    @reg("print")
    def _(i, a, k, n):
        i.emit("ext", "print", a, node=n)

    @reg("repr")
    def _(i, a, k, n):
        return i.to_str(a[0], n, conv=114)

    @reg("id")
    def _(i, a, k, n):
        return Sym(f"id({show(a[0])})", "num")

    def lazy_scan(i, src, n, stop_on):
        """any()/all() over a generator: consume until the verdict is known, then finalise the temporary generator"""
        from .interp import GenV, AbsRaise as _AR

        g = i.obj_iter(src, n)
        if not isinstance(g, GenV):
            return None
        while True:
            try:
                x = g.next(n)
            except _AR as ar:
                if i.is_stop(ar):
                    return not stop_on
                raise
            if i.truth(x, n) is stop_on:
                if g.state == "suspended":
                    g.close(n)
                return stop_on

    @reg("any")
    def _(i, a, k, n):
        r = lazy_scan(i, a[0], n, True)
        if r is not None:
            return r
        kind, items = i.iterate(a[0], n)
        if kind != "known":
            raise Unsupported("any() of unknown", n)
        return any(i.truth(x, n) for x in items)

    @reg("all")
    def _(i, a, k, n):
        r = lazy_scan(i, a[0], n, False)
        if r is not None:
            return r
        kind, items = i.iterate(a[0], n)
        if kind != "known":
            raise Unsupported("all() of unknown", n)
        return all(i.truth(x, n) for x in items)

    @reg("dir")
    def _(i, a, k, n):
        v = a[0]
        cls = v.cls if isinstance(v, Obj) else v
        if isinstance(cls, ClassV):
            if getattr(cls, "abstract_user", False) or any(getattr(c, "abstract_user", False) for c in cls.mro):
                lo = ListOf(Sym("attrname", "str", tag="nonnull"), label=f"dir({show(v)})")
                lo.source = v
                return lo
            names = set()
            for c in cls.mro:
                names.update(x for x in c.ns if isinstance(x, str) and not x.startswith("$"))
            if isinstance(v, Obj):
                names.update(x for x in v.fields if isinstance(x, str) and not x.startswith("$"))
            from .interp import OBJECT_ATTRS

            names.update(OBJECT_ATTRS)
            return ListV(sorted(names))
        if isinstance(v, Ext):
            lo = ListOf(Sym("attrname", "str", tag="nonnull"), label=f"dir({v.path})")
            lo.source = v
            return lo
        raise Unsupported(f"dir of {v!r}", n)

    @reg("vars")
    def _(i, a, k, n):
        return i.getattr(a[0], "__dict__", n)

    @reg("property")
    def _(i, a, k, n):
        return PropertyV(a[0] if a else k.get("fget"), a[1] if len(a) > 1 else k.get("fset"))

    b["property"].type_marker = True

    @reg("staticmethod")
    def _(i, a, k, n):
        return StaticV(a[0])

    @reg("classmethod")
    def _(i, a, k, n):
        return ClassMethodV(a[0])

    @reg("compile")
    def _(i, a, k, n):
        src = a[0]
        mode = a[2] if len(a) > 2 else k.get("mode", "exec")
        if not isinstance(src, str) or mode != "eval":
            raise Unsupported(f"compile() of {src!r} in mode {mode!r}", n)
        return CodeV(src)

    @reg("eval")
    def _(i, a, k, n):
        code = a[0]
        if isinstance(code, CodeV):
            code = code.src
        if not isinstance(code, str):
            raise Unsupported(f"eval of a string that does not fold to a constant: {code!r}", n)
        g = a[1] if len(a) > 1 else None
        from .interp import Frame

        if g is None:
            # eval(src): globals of the calling module, locals of the calling frame (read-only view)
            cur = i.frames[-1]
            ns = dict(cur.module.ns)
            for d in reversed(cur.closure):
                ns.update(d)
            if cur.func is not None:
                ns.update(cur.locals)
            g = DictV(ns)
        if not isinstance(g, DictV):
            raise Unsupported("eval with a globals argument that is not a plain dict", n)

        try:
            tree = ast.parse(code, mode="eval")
        except SyntaxError as e:
            from .interp import AbsRaise

            raise AbsRaise(i.make_exc("ValueError", f"SyntaxError in eval: {e}"), i.site(n), True)
        cur = i.frames[-1]
        pm = ModuleV(f"<eval in {cur.module.name}>", cur.module.filename, tree)
        pm.ns = g.items
        pm.loaded = True
        fr = Frame(pm)
        fr.locals = g.items
        fr.site_fn = f"<eval:{code}>"
        i.emit("eval", code, node=n)
        i.frames.append(fr)
        try:
            ast.increment_lineno(tree, getattr(n, "lineno", 1) - 1)
            return i.eval(tree.body, fr)
        finally:
            i.frames.pop()

    @reg("super")
    def _(i, a, k, n):
        from .values import SuperV

        if len(a) == 2:
            return SuperV(a[0], a[1])
        raise Unsupported("super() with arguments", n)

    @reg("iter")
    def _(i, a, k, n):
        from .interp import GenV

        if isinstance(a[0], (GenV, IterV)):
            return a[0]
        if isinstance(a[0], Obj) and a[0].cls.lookup("__iter__")[1] is not None:
            return i.obj_iter(a[0], n)
        return IterV(a[0])

    @reg("next")
    def _(i, a, k, n):
        from .interp import GenV, AbsRaise as _AR

        it_ = a[0]
        if isinstance(it_, GenV):
            try:
                return it_.next(n)
            except _AR as ar:
                if len(a) > 1 and i.is_stop(ar):
                    return a[1]
                raise
        if isinstance(it_, Obj) and it_.cls.lookup("__next__")[1] is not None:
            c_, f_ = it_.cls.lookup("__next__")
            try:
                return i.call(i.bind(f_, it_, c_), [], {}, n)
            except _AR as ar:
                if len(a) > 1 and i.is_stop(ar):
                    return a[1]
                raise
        if not isinstance(it_, IterV):
            raise Unsupported(f"next() of {it_!r}", n)
        if it_.items is None:
            if it_.consumed:
                it_.items = []
            else:
                it_.items = list(i.materialize(it_, n)) if it_.fn is not None or it_.kind == "generator" else list(i.materialize(it_.source, n))
                it_.consumed = True
            it_.pos = 0
        if it_.pos < len(it_.items):
            v = it_.items[it_.pos]
            it_.pos += 1
            return v
        if len(a) > 1:
            return a[1]
        from .interp import AbsRaise

        raise AbsRaise(i.make_exc("StopIteration"), i.site(n), True)

    @reg("filter")
    def _(i, a, k, n):
        return IterV(a[1], a[0], "filter")

    @reg("map")
    def _(i, a, k, n):
        if len(a) != 2:
            raise Unsupported("map with several iterables", n)
        return IterV(a[1], a[0], "map")

    @reg("sum")
    def _(i, a, k, n):
        kind, items = i.iterate(a[0], n)
        if kind != "known":
            raise Unsupported("sum of unknown", n)
        t = a[1] if len(a) > 1 else 0
        for x in items:
            t = num_add(t, i.as_num(x, n))
        return t

    return b


def _sort_key(v):
    if isinstance(v, tuple):
        return tuple(_sort_key(x) for x in v)
    if isinstance(v, (str, int, Fraction)):
        return (type(v).__name__ == "str", v)
    raise TypeError


def sort_items(i, items, k, n, what):
    """stable sort with key= / reverse=; with symbolic keys the result is some permutation: a 'reorder' event is emitted
    and the given order kept (the analyses that care about order listen for that event)"""
    key = k.get("key")
    rev = k.get("reverse", False)
    if not isinstance(rev, bool):
        rev = i.truth(rev, n)
    keys = [x if key is None else i.call(key, [x], {}, n) for x in items]
    try:
        order = sorted(range(len(items)), key=lambda j: _sort_key(keys[j]), reverse=rev)
    except TypeError:
        i.emit("reorder", what, [ListV(list(items))], node=n, extra="symbolic")
        return list(items)
    return [items[j] for j in order]


def _minmax(i, op, a, n):
    if len(a) == 1:
        kind, items = i.iterate(a[0], n)
        if kind != "known":
            raise Unsupported(f"{op} of unknown iterable", n)
        a = items
    vals = [i.as_num(x, n) for x in a]
    if all(isinstance(v, (int, Fraction)) for v in vals):
        return (max if op == "max" else min)(vals)
    return App(op, tuple(vals))


def obj_default_attr(interp, obj, name, default, e, node):
    """getattr(ext_obj, name, default): the attribute may or may not exist."""
    if default is None:
        return e
    # non-None default: fork now (attribute present -> handle, absent -> default)
    e.maybe_none = False
    c = interp.decide(("hasattr", ("ext", obj.uid), obj.path, name), node)
    return e if c else default


# ----------------------------------------------------------------------------------------
# model modules
# ----------------------------------------------------------------------------------------
def model_module(interp, full):
    cache = interp.program.__dict__.setdefault("_model_modules", {})
    if full in cache:
        return cache[full]
    m = None
    mk = _MODEL_MODULES.get(full)
    src = os.path.join(os.path.dirname(os.path.abspath(__file__)), "prelude", full + ".py")
    if os.path.exists(src):
        # library module given as interpreted source (generators stay lazy); python-level entries override
        with open(src) as fh:
            tree = ast.parse(fh.read(), filename=f"<prelude:{full}>")
        m = ModuleV(full, f"<prelude:{full}>", tree)
        m.is_model = True
        cache[full] = m
        interp.load_module(m)
        if mk is not None:
            mk(interp, m)
    elif mk is not None:
        m = ModuleV(full, f"<model:{full}>", None)
        m.loaded = True
        m.is_model = True
        mk(interp, m)
    cache[full] = m
    return m


def _ext_default_getter(m, path):
    """unknown attributes of a model module fall back to Ext handles"""
    m.ext_fallback = path


def _mod_inspect(interp, m):
    b = interp.builtins
    P = ClassV("Parameter", [], {}, None, None, "inspect.Parameter")
    for kname in ("POSITIONAL_ONLY", "POSITIONAL_OR_KEYWORD", "VAR_POSITIONAL", "KEYWORD_ONLY", "VAR_KEYWORD"):
        P.ns[kname] = kname
    P.ns["empty"] = Sym("inspect._empty", "any", uid=0)
    S = ClassV("Signature", [], {}, None, None, "inspect.Signature")
    m.ns["Parameter"] = P
    m.ns["Signature"] = S

    def signature(i, a, k, n):
        f = a[0]
        params = DictV()
        if isinstance(f, Ext) and getattr(f, "meta", None) is not None:
            for pname, pkind in f.meta["params"]:
                params.items[pname] = Obj(P, {"name": pname, "kind": pkind, "default": P.ns["empty"]})
        elif isinstance(f, (FuncV, BoundMethod)):
            fv = f.func if isinstance(f, BoundMethod) else f
            ar = fv.node.args
            seq = [(x.arg, "POSITIONAL_ONLY") for x in ar.posonlyargs] + [(x.arg, "POSITIONAL_OR_KEYWORD") for x in ar.args]
            if isinstance(f, BoundMethod):
                seq = seq[1:]
            if ar.vararg:
                seq.append((ar.vararg.arg, "VAR_POSITIONAL"))
            seq += [(x.arg, "KEYWORD_ONLY") for x in ar.kwonlyargs]
            if ar.kwarg:
                seq.append((ar.kwarg.arg, "VAR_KEYWORD"))
            for pname, pkind in seq:
                params.items[pname] = Obj(P, {"name": pname, "kind": pkind, "default": P.ns["empty"]})
        elif isinstance(f, Ext):
            lo = ListOf(Sym("param", "any"), label=f"signature({f.path}).parameters")
            o = Obj(S, {"parameters": lo})
            return o
        else:
            raise Unsupported(f"inspect.signature of {f!r}", n)
        return Obj(S, {"parameters": params})

    m.ns["signature"] = BuiltinV("inspect.signature", signature)

    def getdoc(i, a, k, n):
        f = a[0]
        if isinstance(f, Ext) and getattr(f, "meta", None) is not None:
            return f.meta.get("doc")
        if isinstance(f, FuncV):
            return ast.get_docstring(f.node)
        return i.getattr(f, "__doc__", n, default=None)

    m.ns["getdoc"] = BuiltinV("inspect.getdoc", getdoc)

    def ismethod(i, a, k, n):
        v = a[0]
        if isinstance(v, BoundMethod):
            return True
        if isinstance(v, Ext):
            return Cond(("ismethod", ("ext", v.uid), v.path))
        return False

    m.ns["ismethod"] = BuiltinV("inspect.ismethod", ismethod)
    m.ns["isclass"] = BuiltinV("inspect.isclass", lambda i, a, k, n: isinstance(a[0], ClassV) or (Cond(("isclass", vkey(a[0]))) if isinstance(a[0], (Ext, Sym)) else False))
    _ext_default_getter(m, "inspect")


def _mod_functools(interp, m):
    def partial(i, a, k, n):
        return PartialV(a[0], list(a[1:]), dict(k))

    m.ns["partial"] = BuiltinV("functools.partial", partial)

    def update_wrapper(i, a, k, n):
        i.emit("ext", "functools.update_wrapper", a, node=n)
        return a[0]

    m.ns["update_wrapper"] = BuiltinV("functools.update_wrapper", update_wrapper)

    def memo_key(v):
        # only arguments whose identity is concrete take part in the memo table
        if v is None or isinstance(v, (bool, int, str, ClassV, FuncV)):
            return ("k", type(v).__name__, v if isinstance(v, (bool, int, str)) or v is None else id(v))
        if isinstance(v, tuple):
            return ("t",) + tuple(memo_key(x) for x in v)
        raise KeyError

    def memoised(f):
        # lru_cache / cache: the object returned for equal concrete arguments is the SAME object (that sharing is
        # what matters to the analyses); with a symbolic argument the call goes straight through.
        table = {}

        def call(i, a, k, n):
            try:
                key = (tuple(memo_key(x) for x in a), tuple(sorted((kk, memo_key(vv)) for kk, vv in k.items())))
            except KeyError:
                return i.call(f, list(a), dict(k), n)
            ent = table.get(key)
            if ent is not None and ent[0] is i:
                return ent[1]
            r = i.call(f, list(a), dict(k), n)
            table[key] = (i, r)
            return r

        b = BuiltinV(f"functools.<cached {getattr(f, 'qualname', f)}>", call)
        b.wrapped = f
        return b

    def cache_deco(i, a, k, n):
        if len(a) == 1 and not k and isinstance(a[0], (FuncV, BoundMethod)):
            return memoised(a[0])
        return BuiltinV("functools.<decorator>", lambda i2, a2, k2, n2: memoised(a2[0]))

    m.ns["lru_cache"] = BuiltinV("functools.lru_cache", cache_deco)
    m.ns["cache"] = BuiltinV("functools.cache", cache_deco)
    def partialmethod(i, a, k, n):
        func, pre, kw = a[0], list(a[1:]), dict(k)

        def call(i2, a2, k2, n2):
            kk = dict(kw)
            kk.update(k2)
            return i2.call(func, [a2[0]] + pre + list(a2[1:]), kk, n2)

        b = BuiltinV(f"functools.<partialmethod {getattr(func, 'qualname', func)}>", call)
        b.is_method = True
        b.wrapped = func
        return b

    m.ns["partialmethod"] = BuiltinV("functools.partialmethod", partialmethod)

    def reduce(i, a, k, n):
        kind, items = i.iterate(a[1], n)
        if kind != "known":
            raise Unsupported("functools.reduce over an iterable of unknown length", n)
        items = list(items)
        if len(a) > 2:
            acc = a[2]
        elif items:
            acc = items.pop(0)
        else:
            from .interp import AbsRaise

            raise AbsRaise(i.make_exc("TypeError", "reduce() of empty iterable with no initial value"), i.site(n), True)
        for x in items:
            acc = i.call(a[0], [acc, x], {}, n)
        return acc

    m.ns["reduce"] = BuiltinV("functools.reduce", reduce)
    m.ns["wraps"] = BuiltinV("functools.wraps", lambda i, a, k, n: BuiltinV("functools.<wraps>", lambda i2, a2, k2, n2: a2[0]))
    _ext_default_getter(m, "functools")


def _mod_contextlib(interp, m):
    from .interp import AbsRaise, GenV

    def method(name, impl):
        b = BuiltinV(name, impl)
        b.is_method = True
        return b

    GCM = ClassV("_GeneratorContextManager", [], {}, None, None, "contextlib._GeneratorContextManager")

    def gcm_enter(i, a, k, n):
        g = a[0].fields["gen"]
        try:
            return g.next(n)
        except AbsRaise as ar:
            if i.is_stop(ar):
                raise AbsRaise(i.make_exc("RuntimeError", "generator didn't yield"), i.site(n), True)
            raise

    def gcm_exit(i, a, k, n):
        g = a[0].fields["gen"]
        exc = a[2] if len(a) > 2 else None
        if exc is None:
            try:
                g.next(n)
            except AbsRaise as ar:
                if i.is_stop(ar):
                    return False
                raise
            raise AbsRaise(i.make_exc("RuntimeError", "generator didn't stop"), i.site(n), True)
        try:
            g.throw(exc, n)
        except AbsRaise as ar:
            if i.is_stop(ar):
                return True  # the generator swallowed the exception
            if ar.exc is exc:
                return False  # re-raised: the with statement lets the original propagate
            raise
        raise AbsRaise(i.make_exc("RuntimeError", "generator didn't stop after throw()"), i.site(n), True)

    GCM.ns["__enter__"] = method("contextmanager.__enter__", gcm_enter)
    GCM.ns["__exit__"] = method("contextmanager.__exit__", gcm_exit)

    def contextmanager(i, a, k, n):
        f = a[0]

        def make(i2, a2, k2, n2):
            g = i2.call(f, list(a2), dict(k2), n2)
            if not isinstance(g, GenV):
                raise Unsupported("contextmanager on something that is not a generator function", n2)
            return Obj(GCM, {"gen": g})

        b = BuiltinV(f"contextlib.<contextmanager {getattr(f, 'qualname', f)}>", make)
        b.is_method = True  # binds like a function when found on a class
        b.wrapped = f
        return b

    m.ns["contextmanager"] = BuiltinV("contextlib.contextmanager", contextmanager)

    SUP = ClassV("suppress", [], {}, None, None, "contextlib.suppress")

    def sup_exit(i, a, k, n):
        exc = a[2] if len(a) > 2 else None
        if exc is None:
            return False
        return any(i.exc_isinstance(exc, c) for c in a[0].fields["excs"])

    SUP.ns["__enter__"] = method("suppress.__enter__", lambda i, a, k, n: None)
    SUP.ns["__exit__"] = method("suppress.__exit__", sup_exit)
    m.ns["suppress"] = BuiltinV("contextlib.suppress", lambda i, a, k, n: Obj(SUP, {"excs": tuple(a)}))

    NUL = ClassV("nullcontext", [], {}, None, None, "contextlib.nullcontext")
    NUL.ns["__enter__"] = method("nullcontext.__enter__", lambda i, a, k, n: a[0].fields["value"])
    NUL.ns["__exit__"] = method("nullcontext.__exit__", lambda i, a, k, n: False)
    m.ns["nullcontext"] = BuiltinV("contextlib.nullcontext", lambda i, a, k, n: Obj(NUL, {"value": a[0] if a else None}))
    ACM = ClassV("AbstractContextManager", [], {"__doc__": None}, None, None, "contextlib.AbstractContextManager")
    ACM.ns["__enter__"] = method("AbstractContextManager.__enter__", lambda i, a, k, n: a[0])
    ACM.ns["__exit__"] = method("AbstractContextManager.__exit__", lambda i, a, k, n: None)
    m.ns["AbstractContextManager"] = ACM
    _ext_default_getter(m, "contextlib")


def _mod_math(interp, m):
    def pw(i, a, k, n):
        x, y = i.as_num(a[0], n), i.as_num(a[1], n)
        return App("pow", (x, y))

    m.ns["pow"] = BuiltinV("math.pow", pw)
    _ext_default_getter(m, "math")


def _mod_collections_abc(interp, m):
    m.ns["Sequence"] = interp.builtins["Sequence"]
    _ext_default_getter(m, "collections.abc")


def _mod_collections(interp, m):
    m.ns["abc"] = model_module(interp, "collections.abc")

    def namedtuple(i, a, k, n):
        name, fields = a[0], a[1]
        if isinstance(fields, str):
            fields = fields.replace(",", " ").split()
        else:
            kind, fields = i.iterate(fields, n)
            if kind != "known":
                raise Unsupported("namedtuple with unknown fields", n)
        if not isinstance(name, str) or not all(isinstance(f, str) for f in fields):
            raise Unsupported("namedtuple with symbolic names", n)
        fr = i.frames[-1] if i.frames else None
        cls = ClassV(name, [], {"__doc__": None}, fr.module if fr else None, None, name, mutable=False)
        cls.nt_fields = list(fields)
        cls.ns["_fields"] = tuple(fields)
        d = k.get("defaults")
        dv = list(i.materialize(d, n)) if d is not None else []
        cls.nt_defaults = dict(zip(cls.nt_fields[len(cls.nt_fields) - len(dv):], dv))
        return cls

    m.ns["namedtuple"] = BuiltinV("collections.namedtuple", namedtuple)
    _ext_default_getter(m, "collections")


def _mod_types(interp, m):
    def simplens(i, a, k, n):
        return Ext("types.SimpleNamespace()", "lib", role="instance")

    m.ns["SimpleNamespace"] = BuiltinV("types.SimpleNamespace", simplens)
    _ext_default_getter(m, "types")


def _mod_typing(interp, m):
    def get_args(i, a, k, n):
        v = a[0]
        if isinstance(v, Obj) and v.cls.name == "_GenericAlias":
            return v.fields["__args__"]
        if isinstance(v, Ext):
            return i.ext_child(v, ".__args__")
        return ()

    def get_origin(i, a, k, n):
        v = a[0]
        if isinstance(v, Obj) and v.cls.name == "_GenericAlias":
            return v.fields["__origin__"]
        if isinstance(v, Ext):
            return i.ext_child(v, ".__origin__", maybe_none=True)
        return None

    m.ns["get_args"] = BuiltinV("typing.get_args", get_args)
    m.ns["get_origin"] = BuiltinV("typing.get_origin", get_origin)
    _ext_default_getter(m, "typing")


def generic_alias(interp, origin, args):
    cls = interp.program.__dict__.get("_alias_cls")
    if cls is None:
        cls = ClassV("_GenericAlias", [], {}, None, None, "_GenericAlias")
        interp.program.__dict__["_alias_cls"] = cls
    return Obj(cls, {"__origin__": origin, "__args__": args if isinstance(args, tuple) else (args,)})


def _mod_itertools(interp, m):
    def count(i, a, k, n):
        start = a[0] if a else k.get("start", 0)
        step = a[1] if len(a) > 1 else k.get("step", 1)
        if not isinstance(start, int) or not isinstance(step, int):
            raise Unsupported("itertools.count with symbolic arguments", n)
        it_ = IterV(ListV([]), None, "count")
        it_.items = _Counter(start, step)
        return it_

    m.ns["count"] = BuiltinV("itertools.count", count)
    _ext_default_getter(m, "itertools")


class _Counter:
    """lazy infinite arithmetic progression used as IterV.items"""

    def __init__(self, start, step):
        self.start, self.step = start, step

    def __len__(self):
        return 10 ** 9

    def __getitem__(self, i):
        if isinstance(i, slice):
            raise Unsupported("iteration over an infinite itertools.count")
        return self.start + i * self.step


def _mod_dataclasses(interp, m):
    def field(i, a, k, n):
        return ("$field", k.get("default", _missing()), k.get("default_factory"))

    def dataclass(i, a, k, n):
        def apply(cls):
            if not isinstance(cls, ClassV):
                raise Unsupported("dataclass on a non-class", n)
            names = []
            for c in reversed(cls.mro):
                for nm in c.annotations:
                    if nm not in names and not str(c.annotations[nm]).startswith("ClassVar"):
                        names.append(nm)

            def init(i2, a2, k2, n2, cls=cls, names=names):
                self_ = a2[0]
                pos = list(a2[1:])
                for j, nm in enumerate(names):
                    if j < len(pos):
                        v = pos[j]
                    elif nm in k2:
                        v = k2[nm]
                    else:
                        c_, v = cls.lookup(nm)
                        if c_ is None:
                            from .interp import AbsRaise

                            raise AbsRaise(i2.make_exc("TypeError", f"missing argument {nm}"), i2.site(n2), True)
                        if isinstance(v, tuple) and len(v) == 3 and v[0] == "$field":
                            v = i2.call(v[2], [], {}, n2) if v[2] is not None else v[1]
                    self_.fields[nm] = v
                c_, post = cls.lookup("__post_init__")
                if post is not None:
                    i2.call(i2.bind(post, self_, c_), [], {}, n2)
                return None

            b = BuiltinV(f"{cls.name}.__init__", init)
            b.is_method = True
            if "__init__" not in cls.ns:
                cls.ns["__init__"] = b
            return cls

        if len(a) == 1 and not k and isinstance(a[0], ClassV):
            return apply(a[0])
        return BuiltinV("dataclasses.<dataclass>", lambda i2, a2, k2, n2: apply(a2[0]))

    m.ns["dataclass"] = BuiltinV("dataclasses.dataclass", dataclass)
    m.ns["field"] = BuiltinV("dataclasses.field", field)
    _ext_default_getter(m, "dataclasses")


def _mod_operator(interp, m):
    import ast as _ast

    def binop(opcls):
        return lambda i, a, k, n: i.binop(opcls(), a[0], a[1], n)

    def cmpop(opcls):
        return lambda i, a, k, n: i.compare(opcls(), a[0], a[1], n)

    for name, opcls in (("add", _ast.Add), ("sub", _ast.Sub), ("mul", _ast.Mult), ("truediv", _ast.Div), ("xor", _ast.BitXor), ("mod", _ast.Mod)):
        m.ns[name] = BuiltinV("operator." + name, binop(opcls))
    for name, opcls in (("lt", _ast.Lt), ("le", _ast.LtE), ("gt", _ast.Gt), ("ge", _ast.GtE), ("eq", _ast.Eq), ("ne", _ast.NotEq), ("is_", _ast.Is), ("is_not", _ast.IsNot)):
        m.ns[name] = BuiltinV("operator." + name, cmpop(opcls))
    m.ns["not_"] = BuiltinV("operator.not_", lambda i, a, k, n: (a[0].negate() if isinstance(a[0], Cond) else not i.truth(a[0], n)))
    m.ns["truth"] = BuiltinV("operator.truth", lambda i, a, k, n: i.truth(a[0], n))
    m.ns["contains"] = BuiltinV("operator.contains", lambda i, a, k, n: i.contains(a[0], a[1], n))
    m.ns["getitem"] = BuiltinV("operator.getitem", lambda i, a, k, n: i.subscript(a[0], a[1], n))

    def attrgetter(i, a, k, n):
        names = list(a)
        return BuiltinV("operator.attrgetter(...)", lambda i2, a2, k2, n2: (i2.getattr(a2[0], names[0], n2) if len(names) == 1 else tuple(i2.getattr(a2[0], nm, n2) for nm in names)))

    def itemgetter(i, a, k, n):
        keys = list(a)
        return BuiltinV("operator.itemgetter(...)", lambda i2, a2, k2, n2: (i2.subscript(a2[0], keys[0], n2) if len(keys) == 1 else tuple(i2.subscript(a2[0], kk, n2) for kk in keys)))

    def methodcaller(i, a, k, n):
        nm, rest = a[0], list(a[1:])
        return BuiltinV("operator.methodcaller(...)", lambda i2, a2, k2, n2: i2.call(i2.getattr(a2[0], nm, n2), rest, dict(k), n2))

    m.ns["attrgetter"] = BuiltinV("operator.attrgetter", attrgetter)
    m.ns["itemgetter"] = BuiltinV("operator.itemgetter", itemgetter)
    m.ns["methodcaller"] = BuiltinV("operator.methodcaller", methodcaller)
    _ext_default_getter(m, "operator")


_MODEL_MODULES = {
    "contextlib": _mod_contextlib,
    "dataclasses": _mod_dataclasses,
    "operator": _mod_operator,
    "itertools": _mod_itertools,
    "typing": _mod_typing,
    "inspect": _mod_inspect,
    "functools": _mod_functools,
    "math": _mod_math,
    "collections.abc": _mod_collections_abc,
    "collections": _mod_collections,
    "types": _mod_types,
}


# ----------------------------------------------------------------------------------------
# Ext behaviour
# ----------------------------------------------------------------------------------------
class UserFault:
    pass


def looks_like_class(path):
    last = path.rsplit(".", 1)[-1]
    last = last.split("(")[0].split("[")[0]
    return bool(last) and last[0].isupper() and not last.isupper()


def argrepr(args, kwargs):
    def r(v):
        if isinstance(v, (str, int, bool, type(None))):
            return repr(v)
        if isinstance(v, Fraction):
            return show(v)
        return "…"

    parts = [r(a) for a in args] + [f"{k}={r(v)}" for k, v in kwargs.items()]
    return ", ".join(parts)


def ext_call(interp, fn, args, kwargs, node):
    from .interp import AbsRaise

    path = fn.path
    if path in CLOCKS and fn.origin == "lib":
        n = sum(1 for e in interp.trace if e.kind == "clock")
        s = Sym(f"now{n}", "num", tag=("clock", CLOCKS[path], path))
        interp.emit("clock", path, node=node, extra=s)
        return s
    if path in PURE_PATH_FUNCS and fn.origin == "lib" and not kwargs and args and all(isinstance(x, str) for x in args):
        # pure string functions of os.path on concrete arguments are evaluated (POSIX flavour)
        import posixpath

        r = getattr(posixpath, path.rsplit(".", 1)[1])(*args)
        return r
    if path == "sys.exc_info" and fn.origin == "lib":
        # (type, value, traceback) of the exception being handled
        if interp.exc_stack:
            e = interp.exc_stack[-1]
            return (e.cls if isinstance(e, Obj) else type_of(interp, e), e, Ext("traceback", "lib", role="instance"))
        return (None, None, None)
    if interp.load_mode:
        return Ext(f"{path}({argrepr(args, kwargs)})", fn.origin, role="loadtime", parent=fn, callargs=(tuple(args), dict(kwargs)))
    if path == "wpilib.Timer" and fn.origin == "lib" and getattr(interp, "model_wpilib_timer", False):
        # a check asked for WPILib's Timer to be interpreted (sa/prelude/wpilib_timer.py) instead of being opaque
        tm = model_module(interp, "wpilib_timer")
        return interp.call(tm.ns["Timer"], list(args), dict(kwargs), node)
    kind = "user" if fn.origin == "user" else "ext"
    ev = interp.emit(kind, path, args, kwargs, node=node, callee=fn)
    if kind == "user" and interp.user_may_raise:
        if interp.choose(2, ("raises", path, interp.site(node))):
            exc = interp.make_exc("UserFault", path)
            ev.extra = "raised"
            interp.emit("fault", path, node=node, callee=fn)
            raise AbsRaise(exc, interp.site(node))
    is_cls = looks_like_class(path)
    r = Ext(f"{path}({argrepr(args, kwargs)})", fn.origin, role="instance" if is_cls else "result", maybe_none=not is_cls, parent=fn, callargs=(tuple(args), dict(kwargs)))
    ev.extra = ev.extra or r
    return r


def ext_attr(interp, obj, name, node):
    M = _missing()
    meta = getattr(obj, "meta", None)
    if meta is not None:
        if name == "__name__":
            return meta["name"]
        if name == "__doc__":
            return meta.get("doc")
        if name in meta.get("attrs", {}):
            return meta["attrs"][name]
    return M


def value_attr(interp, obj, name, node):
    """attributes (methods) of builtin values"""
    M = _missing()
    f = _METHODS.get((_kind(obj), name))
    if f is None:
        if isinstance(obj, BuiltinV):
            if name == "__name__":
                return obj.name.split(".")[-1]
            if name == "__bases__" and obj.name in TYPE_NAMES:
                return () if obj.name == "object" else (interp.builtins["object"],)
            if name == "__mro__" and obj.name in TYPE_NAMES:
                return (obj,) if obj.name == "object" else (obj, interp.builtins["object"])
            if name == "__dict__" and obj.name in TYPE_NAMES:
                from .interp import OBJECT_ATTRS

                if obj.name == "object":
                    return DictV({a: BuiltinV("object." + a) for a in OBJECT_ATTRS if a not in ("__dict__", "__weakref__", "__module__")})
                return DictV()
            if obj.name == "dict" and name == "fromkeys":
                raise Unsupported("dict.fromkeys", node)
            if obj.name == "object" and name in ("__new__", "__init__", "__setattr__"):
                return BuiltinV("object." + name, _OBJECT_METHODS[name])
            return M
        if isinstance(obj, ModuleV):
            return M
        if isinstance(obj, (Sym,)):
            if obj.kind == "str":
                f = _METHODS.get(("str", name))
                if f is not None:
                    b = BuiltinV(f"str.{name}", lambda i, a, k, n, f=f, o=obj: f(i, o, a, k, n))
                    return b
            e = Ext(obj.name, "user", role="symobj")
            e.uid = obj.uid
            return interp.ext_child(e, "." + name)
        if isinstance(obj, PropertyV):
            if name == "setter":
                return BuiltinV("property.setter", lambda i, a, k, n, p=obj: PropertyV(p.fget, a[0]))
            if name == "fget":
                return obj.fget
        return M
    return BuiltinV(f"{_kind(obj)}.{name}", lambda i, a, k, n, f=f, o=obj: f(i, o, a, k, n))


def _kind(v):
    if isinstance(v, (str, SymStr)):
        return "str"
    if isinstance(v, ListV):
        return "list"
    if isinstance(v, DictV):
        return "dict"
    if isinstance(v, tuple):
        return "tuple"
    if isinstance(v, SetV):
        return "set"
    if isinstance(v, ListOf):
        return "listof"
    if isinstance(v, bytes):
        return "bytes"
    return type(v).__name__


def _object_new(i, a, k, n):
    cls = a[0]
    if not isinstance(cls, ClassV):
        raise Unsupported("object.__new__ of non-class", n)
    return Obj(cls)


_OBJECT_METHODS = {
    "__new__": _object_new,
    "__init__": lambda i, a, k, n: None,
    "__setattr__": lambda i, a, k, n: a[0].fields.__setitem__(a[1], a[2]),
}


def super_builtin_attr(interp, sup, name, node):
    M = _missing()
    cls = sup.obj.cls if isinstance(sup.obj, Obj) else sup.obj
    if cls.ext_bases():
        return M
    if name == "__new__":
        return BuiltinV("object.__new__", _object_new)
    if name == "__init__":
        if isinstance(sup.obj, Obj) and sup.obj.cls.is_subclass(interp.builtins["BaseException"]):
            return BuiltinV("BaseException.__init__", lambda i, a, k, n, o=sup.obj: o.fields.__setitem__("args", tuple(a)))
        return BuiltinV("object.__init__", lambda i, a, k, n: None)
    if name == "__init_subclass__":
        return BuiltinV("object.__init_subclass__", lambda i, a, k, n: None)
    return M


def obj_builtin_attr(interp, obj, name, node):
    M = _missing()
    if obj.cls.name == "object" and name == "__init__":
        return BuiltinV("object.__init__", lambda i, a, k, n: None)
    if obj.cls.is_subclass(interp.builtins["BaseException"]):
        if name == "args":
            return obj.fields.get("args", ())
        if name == "name":
            return obj.fields.get("name", Sym("exc.name", "str"))
    if name in ("__init__", "__init_subclass__") and not obj.cls.ext_bases():
        return BuiltinV("object." + name, lambda i, a, k, n: None)
    if name == "__repr__" or name == "__str__":
        return BuiltinV("object." + name, lambda i, a, k, n, o=obj: i.to_str(o))
    return M


def builtin_instantiate(interp, cls, args, kwargs, node):
    return _missing()


def record_construct(interp, cls, args, kwargs, node):
    """Constructor recorded by parameter name instead of interpreted (e.g. magicbot.tunable)."""
    c, init = cls.lookup("__init__")
    fields = {}
    if init is not None:
        a = init.node.args
        names = [x.arg for x in a.posonlyargs + a.args][1:]
        nd = len(init.defaults)
        for j, p in enumerate(names):
            if j < len(args):
                fields[p] = args[j]
            elif p in kwargs:
                fields[p] = kwargs[p]
            elif j + 1 >= len(names) + 1 - nd:
                fields[p] = init.defaults[j + 1 - (len(names) + 1 - nd)]
        for p in a.kwonlyargs:
            if p.arg in kwargs:
                fields[p.arg] = kwargs[p.arg]
            elif p.arg in init.kwdefaults:
                fields[p.arg] = init.kwdefaults[p.arg]
    o = Obj(cls, fields)
    o.recorded = True
    interp.emit("construct", cls.qualname, args, kwargs, node=node, extra=o)
    return o


def dictview(interp, obj):
    cls = interp.program.__dict__.get("_dictview_cls")
    if cls is None:
        cls = ClassV("_dictview", [], {}, None, None, "_dictview")

        def upd(i, a, k, n):
            self, other = a[0], a[1]
            target = self.fields["target"]
            if isinstance(other, DictV):
                for kk, vv in other.items.items():
                    target.fields[kk] = vv
                i.emit("dict_update", "__dict__.update", [target, other], node=n)
            else:
                i.emit("dict_update", "__dict__.update", [target, other], node=n, extra="unknown")
            return None

        u = BuiltinV("_dictview.update", upd)
        u.is_method = True
        cls.ns["update"] = u

        def get(i, a, k, n):
            self = a[0]
            return self.fields["target"].fields.get(a[1], a[2] if len(a) > 2 else None)

        g = BuiltinV("_dictview.get", get)
        g.is_method = True
        cls.ns["get"] = g
        interp.program.__dict__["_dictview_cls"] = cls
    d = DictV()
    d.items = obj.fields
    return Obj(cls, {"target": obj, "target_dict": d})


def instantiate_elem(interp, lo, idx):
    cache = lo.__dict__.setdefault("inst", {})
    if idx in cache:
        return cache[idx]

    def inst(t):
        if isinstance(t, Ext):
            # (leaf of a record template: 'robot.x[].field' -> 'robot.x[]#i.field')
            path = t.path.replace("[]", f"[]#{idx}", 1) if "[]." in t.path else f"{t.path}#{idx}"
            e = Ext(path, t.origin, role=t.role, maybe_none=t.maybe_none, parent=t)
            if getattr(t, "meta", None) is not None:
                e.meta = t.meta
            e.template = t
            if getattr(lo, "shared_cls", None) is not None:
                e.shared_cls = lo.shared_cls  # variant: all elements (and what they hold) are instances of one class
            return e
        if isinstance(t, Sym):
            return Sym(f"{t.name}#{idx}", t.kind, t.tag)
        if isinstance(t, tuple) and len(t) == 2 and t[0] in ("elem-of", "enumerate") and not isinstance(t[1], (str, int)):
            src = t[1]
            if t[0] == "enumerate":
                return (idx, interp.generic_elem(src, idx))
            return interp.generic_elem(src, idx)
        if type(t).__name__ == "NTuple":
            return type(t)(t.cls, [inst(x) for x in t])
        if isinstance(t, tuple):
            return tuple(inst(x) for x in t)
        if isinstance(t, Obj) and getattr(t, "is_template", False):
            o = Obj(t.cls, {k: inst(x) for k, x in t.fields.items()}, label=f"{t.label}#{idx}")
            return o
        return t

    v = inst(lo.elem)
    cache[idx] = v
    return v


# ----------------------------------------------------------------------------------------
# methods of builtin values
# ----------------------------------------------------------------------------------------
def _m_str_startswith(i, s, a, k, n):
    p = a[0]
    if isinstance(p, tuple):
        return any(i.truth(_m_str_startswith(i, s, [x], k, n), n) for x in p)
    if isinstance(s, str) and isinstance(p, str):
        return s.startswith(p)
    if isinstance(s, SymStr) and isinstance(p, str) and s.parts and isinstance(s.parts[0], str):
        h = s.parts[0]
        if len(h) >= len(p):
            return h.startswith(p)
        if not p.startswith(h):
            return False
    return Cond(("startswith", vkey(s), vkey(p)))


def _m_str_endswith(i, s, a, k, n):
    p = a[0]
    if isinstance(s, str) and isinstance(p, str):
        return s.endswith(p)
    if isinstance(s, SymStr) and isinstance(p, str) and s.parts and isinstance(s.parts[-1], str) and len(s.parts[-1]) >= len(p):
        return s.parts[-1].endswith(p)
    return Cond(("endswith", vkey(s), vkey(p)))


def _m_str_join(i, s, a, k, n):
    kind, items = i.iterate(a[0], n)
    if kind != "known":
        return SymStr((Sym(f"join({show(items)})", "str", tag=("join", vkey(s), vkey(items) if not isinstance(items, ListOf) else items.uid)),))
    parts = []
    for j, x in enumerate(items):
        if j:
            parts.append(s)
        if not isinstance(x, (str, SymStr)) and not (isinstance(x, Sym) and x.kind == "str"):
            from .interp import AbsRaise

            raise AbsRaise(i.make_exc("TypeError", "sequence item: expected str"), i.site(n), True)
        parts.append(i.to_str(x))
    return str_concat(*parts)


def _m_str_format(i, s, a, k, n):
    if not isinstance(s, str):
        return SymStr((Sym("format", "str"),))
    import string

    out = []
    auto = 0
    for lit, field, spec, conv in string.Formatter().parse(s):
        out.append(lit)
        if field is None:
            continue
        if field == "":
            v = a[auto]
            auto += 1
        elif field.isdigit():
            v = a[int(field)]
        elif field in k:
            v = k[field]
        else:
            raise Unsupported(f"format field {field}", n)
        out.append(i.to_str(v, n, spec=spec or None))
    return str_concat(*out)


def _m_str_split(i, s, a, k, n):
    if isinstance(s, str) and all(isinstance(x, (str, int)) for x in a):
        return ListV(s.split(*a))
    lo = ListOf(Sym("piece", "str", tag="nonnull"), label=f"split({show(s)})")
    return lo


def _m_str_replace(i, s, a, k, n):
    if isinstance(s, str) and all(isinstance(x, (str, int)) for x in a):
        return s.replace(*a)
    return SymStr((Sym(f"replace({show(s)})", "str", tag=("replace", vkey(s), tuple(vkey(x) for x in a))),))


def _m_str_simple(name):
    def f(i, s, a, k, n):
        if isinstance(s, str) and all(isinstance(x, (str, int)) for x in a):
            return getattr(s, name)(*a)
        return SymStr((Sym(f"{name}({show(s)})", "str", tag=(name, vkey(s))),))

    return f


def _m_str_removeprefix(i, s, a, k, n):
    """s.removeprefix(p) == s[len(p):] if s.startswith(p) else s   (decided per path for symbolic strings)"""
    p = a[0]
    if isinstance(s, str) and isinstance(p, str):
        return s.removeprefix(p)
    if not isinstance(p, str):
        raise Unsupported("removeprefix with a symbolic prefix", n)
    if i.truth(_m_str_startswith(i, s, [p], {}, n), n):
        return i.slice(s, len(p), None, None, n)
    return s


def _m_str_removesuffix(i, s, a, k, n):
    p = a[0]
    if isinstance(s, str) and isinstance(p, str):
        return s.removesuffix(p)
    if not isinstance(p, str) or not p:
        raise Unsupported("removesuffix with a symbolic suffix", n)
    if i.truth(_m_str_endswith(i, s, [p], {}, n), n):
        return i.slice(s, None, -len(p), None, n)
    return s


def _m_list_append(i, l, a, k, n):
    i.mutated(l, n)
    l.items.append(a[0])
    if i.hooks is not None and hasattr(i.hooks, "on_append"):
        i.hooks.on_append(i, l, a[0], n)


def _m_list_extend(i, l, a, k, n):
    i.mutated(l, n)
    i.list_extend(l, a[0], n)


def _m_list_clear(i, l, a, k, n):
    i.mutated(l, n)
    l.items.clear()


def _m_list_pop(i, l, a, k, n):
    i.mutated(l, n)
    try:
        return l.items.pop(*[x for x in a])
    except IndexError:
        from .interp import AbsRaise

        raise AbsRaise(i.make_exc("IndexError", "pop"), i.site(n), True)


def _m_list_index(i, l, a, k, n):
    for j, x in enumerate(l.items):
        if i.truth(i.equal(x, a[0], n), n):
            return j
    from .interp import AbsRaise

    raise AbsRaise(i.make_exc("ValueError", "not in list"), i.site(n), True)


def _m_list_insert(i, l, a, k, n):
    i.mutated(l, n)
    l.items.insert(a[0], a[1])


def _m_list_copy(i, l, a, k, n):
    return ListV(l.items)


def _m_list_sort(i, l, a, k, n):
    i.mutated(l, n)
    l.items[:] = sort_items(i, list(l.items), k, n, "list.sort")


def _m_list_reverse(i, l, a, k, n):
    i.mutated(l, n)
    l.items.reverse()


def _m_listof_append(i, l, a, k, n):
    i.emit("listof_append", l.label or "list", [l, a[0]], node=n)


def _m_dict_get(i, d, a, k, n):
    from .interp import AbsRaise

    try:
        return i.subscript(d, a[0], n)
    except AbsRaise as ar:
        if isinstance(ar.exc, Obj) and ar.exc.cls.name == "KeyError":
            return a[1] if len(a) > 1 else None
        raise


def _m_dict_items(i, d, a, k, n):
    return ListV([(kk, vv) for kk, vv in d.items.items()])


def _m_dict_keys(i, d, a, k, n):
    return ListV(list(d.items.keys()))


def _m_dict_values(i, d, a, k, n):
    return ListV(list(d.items.values()))


def _m_dict_update(i, d, a, k, n):
    i.mutated(d, n)
    if a:
        src = a[0]
        if isinstance(src, DictV):
            for kk, vv in src.items.items():
                d.items[kk] = vv  # position of existing keys is kept (Python dict semantics)
        elif isinstance(src, Obj) and src.cls.name == "_dictview":
            for kk, vv in src.fields["target"].fields.items():
                d.items[kk] = vv
        else:
            kind, items = i.iterate(src, n)
            if kind != "known":
                i.emit("dict_update_unknown", "update", [d, src], node=n)
                d.unknown_updates = getattr(d, "unknown_updates", []) + [src]
                return
            for kv in items:
                kk, vv = i.unpack(kv, 2, n)
                d.items[i.hashable(kk, n)] = vv
    for kk, vv in k.items():
        d.items[kk] = vv


def _m_dict_pop(i, d, a, k, n):
    i.mutated(d, n)
    key = i.hashable(a[0], n)
    if key in d.items:
        return d.items.pop(key)
    if len(a) > 1:
        return a[1]
    from .interp import AbsRaise

    raise AbsRaise(i.make_exc("KeyError", key), i.site(n), True)


def _m_dict_clear(i, d, a, k, n):
    i.mutated(d, n)
    d.items.clear()


def _m_dict_setdefault(i, d, a, k, n):
    i.mutated(d, n)
    key = i.hashable(a[0], n)
    if key not in d.items:
        d.items[key] = a[1] if len(a) > 1 else None
    return d.items[key]


def _m_dict_copy(i, d, a, k, n):
    return DictV(d.items)


def _m_tuple_index(i, t, a, k, n):
    return _m_list_index(i, ListV(list(t)), a, k, n)


def _m_set_add(i, s, a, k, n):
    i.mutated(s, n)
    if not any(i.equal(x, a[0], n) is True for x in s.items):
        s.items.append(a[0])


_METHODS = {
    ("str", "startswith"): _m_str_startswith,
    ("str", "endswith"): _m_str_endswith,
    ("str", "join"): _m_str_join,
    ("str", "format"): _m_str_format,
    ("str", "split"): _m_str_split,
    ("str", "replace"): _m_str_replace,
    ("str", "lstrip"): _m_str_simple("lstrip"),
    ("str", "rstrip"): _m_str_simple("rstrip"),
    ("str", "strip"): _m_str_simple("strip"),
    ("str", "lower"): _m_str_simple("lower"),
    ("str", "upper"): _m_str_simple("upper"),
    ("str", "removeprefix"): _m_str_removeprefix,
    ("str", "removesuffix"): _m_str_removesuffix,
    ("str", "partition"): _m_str_simple("partition"),
    ("list", "append"): _m_list_append,
    ("list", "extend"): _m_list_extend,
    ("list", "clear"): _m_list_clear,
    ("list", "pop"): _m_list_pop,
    ("list", "index"): _m_list_index,
    ("list", "insert"): _m_list_insert,
    ("list", "copy"): _m_list_copy,
    ("list", "sort"): _m_list_sort,
    ("list", "reverse"): _m_list_reverse,
    ("listof", "append"): _m_listof_append,
    ("dict", "get"): _m_dict_get,
    ("dict", "items"): _m_dict_items,
    ("dict", "keys"): _m_dict_keys,
    ("dict", "values"): _m_dict_values,
    ("dict", "update"): _m_dict_update,
    ("dict", "pop"): _m_dict_pop,
    ("dict", "clear"): _m_dict_clear,
    ("dict", "setdefault"): _m_dict_setdefault,
    ("dict", "copy"): _m_dict_copy,
    ("tuple", "index"): _m_tuple_index,
    ("set", "add"): _m_set_add,
}
