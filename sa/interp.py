"""PyAbs - abstract interpreter over the syntax trees of /repo (DESIGN.md 3.2).

The interpreter walks `ast` nodes of the analysed repository with the abstract values of
values.py.  Unknown branch outcomes (symbolic comparisons, truthiness of unknowns, callbacks
that may raise, generic loop lengths, in-state user actions) are resolved by a *chooser*:
one run follows one resolution; the driver (paths.py) enumerates all resolutions depth-first,
so every acyclic path through the analysed code is covered.  No repository code is imported
or executed by CPython; third-party and user code is represented by `Ext` handles whose
calls are *events*.
"""
from __future__ import annotations

import ast
import os
from fractions import Fraction

from .values import (
    App, BoundMethod, BuiltinV, ClassMethodV, ClassV, Cond, ConstObj, NTuple, DictV, Ext, FuncV, Lin, ListOf, ListV,
    IterV, LazyV, UNRESOLVED, ModuleV, Obj, PartialV, PropertyV, SetV, StaticV, SuperV, Sym, SymStr, Unsupported, cmp_cond,
    fresh_id, is_num, num_add, num_div, num_mul, show, str_concat, vkey,
)


# ----------------------------------------------------------------------------------------
# control-flow signals
# ----------------------------------------------------------------------------------------
class ReturnEx(Exception):
    def __init__(self, value):
        self.value = value


class BreakEx(Exception):
    pass


class ContinueEx(Exception):
    pass


class AbsRaise(Exception):
    """An exception of the analysed program."""

    def __init__(self, exc, site=None, implicit=False):
        self.exc = exc
        self.site = site
        self.implicit = implicit  # raised by the interpreter itself (AttributeError, KeyError ...)

    def __str__(self):
        return f"AbsRaise({self.exc!r} at {self.site})"


class PathAbort(Exception):
    """The current path is cut (bound reached / infeasible); not a program behaviour."""

    def __init__(self, reason):
        self.reason = reason


class Ev:
    """One observable event of a path."""

    __slots__ = ("kind", "name", "args", "kwargs", "site", "extra", "callee", "gen")

    def __init__(self, kind, name, args=(), kwargs=None, site=None, extra=None, callee=None):
        self.kind = kind
        self.name = name
        self.args = tuple(args)
        self.kwargs = kwargs or {}
        self.site = site
        self.extra = extra
        self.callee = callee
        self.gen = ()  # uids of the generators whose bodies were running, outermost first

    def __repr__(self):
        a = ", ".join([show(x) for x in self.args] + [f"{k}={show(v)}" for k, v in self.kwargs.items()])
        s = f"{self.kind}:{self.name}({a})"
        if self.site:
            s += f" @{os.path.basename(self.site[0])}:{self.site[1]}"
        return s


class Chooser:
    """Replays a prefix of choices, then takes option 0; the log drives depth-first enumeration."""

    def __init__(self, prefix=()):
        self.prefix = list(prefix)
        self.log = []  # (n_options, chosen, label)
        self.cleanups = []  # run when the path is finished (suspended generators are released)

    def choose(self, n, label=None):
        i = len(self.log)
        c = self.prefix[i] if i < len(self.prefix) else 0
        if c >= n:
            raise Unsupported(f"chooser replay mismatch at {i}: {c} >= {n} ({label})")
        self.log.append((n, c, label))
        return c

    def next_prefix(self):
        for c in self.cleanups:
            c()
        self.cleanups = []
        log = self.log
        for i in range(len(log) - 1, -1, -1):
            n, c, _ = log[i]
            if c + 1 < n:
                return [x[1] for x in log[:i]] + [c + 1]
        return None


def _has_own_yield(fnode):
    """does this function body contain a yield of its own (not one of a nested function / lambda / class)?"""
    stack = list(fnode.body) if isinstance(fnode.body, list) else [fnode.body]
    while stack:
        n = stack.pop()
        if isinstance(n, (ast.Yield, ast.YieldFrom)):
            return True
        if isinstance(n, (ast.FunctionDef, ast.AsyncFunctionDef, ast.Lambda, ast.ClassDef)):
            continue
        stack.extend(ast.iter_child_nodes(n))
    return False


class _Abandon(BaseException):
    """unwinds a suspended generator whose path is over (nothing it does is observed any more)"""


class GenV:
    """A generator object: its body runs lazily, interleaved with its consumer exactly as in Python.
    The body lives on a thread of its own that only ever runs while the consumer waits for it (strict
    hand-over, never concurrently), so the interpreter state needs no locking."""

    def __init__(self, interp, f, fr, node):
        import threading

        self.interp = interp
        self.f = f
        self.fr = fr
        self.node = node
        self.state = "created"  # created | suspended | running | done
        self.saved = [fr]
        self.to_gen = threading.Semaphore(0)
        self.to_cons = threading.Semaphore(0)
        self.msg = None
        self.out = None
        self.thread = None
        self.uid = fresh_id()
        self.body = None
        fr.gen = self
        interp.live_gens.append(self)

    def __repr__(self):
        return f"<generator {getattr(self.f, 'qualname', '<genexpr>')} ({self.state})>"

    def __deepcopy__(self, memo):
        if self.state in ("created", "suspended"):
            raise Unsupported(f"a suspended generator ({getattr(self.f, 'qualname', '<genexpr>')}) is stored in the analysed heap")
        return self

    # ---- consumer side
    def resume(self, msg, node):
        it = self.interp
        if self.state == "done":
            if msg[0] == "close":
                return ("closed",)
            if msg[0] == "throw":
                raise AbsRaise(msg[1], it.site(node), True)
            raise AbsRaise(it.make_exc("StopIteration"), it.site(node), True)
        if self.state == "running":
            raise AbsRaise(it.make_exc("ValueError", "generator already executing"), it.site(node), True)
        if self.state == "created" and msg[0] in ("close", "throw"):
            self.state = "done"
            if msg[0] == "throw":
                raise AbsRaise(msg[1], it.site(node), True)
            return ("closed",)
        if self.state == "created" and msg[0] == "send" and msg[1] is not None:
            raise AbsRaise(it.make_exc("TypeError", "can't send non-None value to a just-started generator"), it.site(node), True)
        base = len(it.frames)
        it.frames.extend(self.saved)
        depth0 = it.depth
        self.msg = msg
        started = self.state == "suspended"
        self.state = "running"
        it.gen_stack.append(self)
        if started:
            self.to_gen.release()
        else:
            import threading

            self.thread = threading.Thread(target=self._run, daemon=True)
            self.thread.start()
        self.to_cons.acquire()
        it.gen_stack.pop()
        self.saved = it.frames[base:]
        del it.frames[base:]
        it.depth = depth0
        out = self.out
        self.out = None
        if out[0] == "yield":
            self.state = "suspended"
            return out
        self.state = "done"
        if self in it.live_gens:
            it.live_gens.remove(self)
        if out[0] == "raise":
            raise out[1]
        return out

    def next(self, node, value=None):
        out = self.resume(("send", value), node)
        if out[0] == "yield":
            return out[1]
        e = self.interp.make_exc("StopIteration")
        e.fields["value"] = out[1]
        if out[1] is not None:
            e.fields["args"] = (out[1],)
        raise AbsRaise(e, self.interp.site(node), True)

    def throw(self, exc, node):
        out = self.resume(("throw", exc), node)
        if out[0] == "yield":
            return out[1]
        e = self.interp.make_exc("StopIteration")
        e.fields["value"] = out[1]
        raise AbsRaise(e, self.interp.site(node), True)

    def close(self, node):
        try:
            out = self.resume(("close",), node)
        except AbsRaise as ar:
            if isinstance(ar.exc, Obj) and ar.exc.cls.name in ("GeneratorExit", "StopIteration"):
                return None
            raise
        if out[0] == "yield":
            raise AbsRaise(self.interp.make_exc("RuntimeError", "generator ignored GeneratorExit"), self.interp.site(node), True)
        return None

    def abandon(self):
        if self.state == "suspended":
            self.msg = ("abandon",)
            self.state = "running"
            self.to_gen.release()
            self.to_cons.acquire()
            self.state = "done"

    # ---- generator side
    def _run(self):
        it = self.interp
        try:
            try:
                if self.body is not None:
                    self.body(self)  # generator expression
                else:
                    it.exec_block(self.f.node.body, self.fr)
                self.out = ("return", None)
            except ReturnEx as r:
                self.out = ("return", r.value)
        except _Abandon:
            self.out = ("abandoned",)
        except AbsRaise as ar:
            if self.msg is not None and self.msg[0] == "close" and isinstance(ar.exc, Obj) and ar.exc.cls.name == "GeneratorExit":
                self.out = ("closed",)
            elif isinstance(ar.exc, Obj) and ar.exc.cls.name == "StopIteration":
                # PEP 479
                self.out = ("raise", AbsRaise(it.make_exc("RuntimeError", "generator raised StopIteration"), ar.site, True))
            else:
                self.out = ("raise", ar)
        except BaseException as e:  # PathAbort, Unsupported, internal errors: re-raised in the consumer
            self.out = ("raise", e)
        self.to_cons.release()

    def do_yield(self, v, node):
        it = self.interp
        self.out = ("yield", v)
        self.to_cons.release()
        self.to_gen.acquire()
        m = self.msg
        if m[0] == "send":
            return m[1]
        if m[0] == "throw":
            raise AbsRaise(m[1], it.site(node), True)
        if m[0] == "close":
            raise AbsRaise(it.make_exc("GeneratorExit"), it.site(node), True)
        it.dead = True
        raise _Abandon()


# ----------------------------------------------------------------------------------------
# program = parsed repository
# ----------------------------------------------------------------------------------------
class Program:
    PACKAGES = ("magicbot", "robotpy_ext")

    def __init__(self, root):
        self.root = os.path.abspath(root)
        self.modules = {}
        self.files = []
        for pkg in self.PACKAGES:
            base = os.path.join(self.root, pkg)
            for dp, dn, fn in os.walk(base):
                dn[:] = sorted(d for d in dn if d != "__pycache__")
                for f in sorted(fn):
                    if f.endswith(".py"):
                        path = os.path.join(dp, f)
                        rel = os.path.relpath(path, self.root)
                        name = rel[:-3].replace(os.sep, ".")
                        if name.endswith(".__init__"):
                            name = name[: -len(".__init__")]
                        with open(path, "rb") as fh:
                            src = fh.read()
                        try:
                            tree = ast.parse(src, filename=rel)
                        except SyntaxError as e:
                            raise Unsupported(f"cannot parse {rel}: {e}")
                        m = ModuleV(name, rel, tree)
                        m.is_pkg = f == "__init__.py"
                        m.src = src
                        self.modules[name] = m
                        self.files.append(rel)

    # -- module-level mutable state: every path starts from what the modules looked like right after import
    def snapshot_static(self):
        """remember the content of every container / instance / class namespace reachable from module level"""
        from .closure import clone

        static = self.__dict__.setdefault("_static", {})
        seen = set()

        def walk(v):
            if isinstance(v, (DictV, ListV, SetV)):
                if id(v) in seen:
                    return
                seen.add(id(v))
                items = list(v.items.values()) if isinstance(v, DictV) else list(v.items)
                if id(v) not in static:
                    static[id(v)] = (v, clone(v.items))
                for x in items:
                    walk(x)
            elif isinstance(v, Obj) and not isinstance(v, ConstObj):
                if id(v) in seen:
                    return
                seen.add(id(v))
                if id(v) not in static:
                    static[id(v)] = (v, clone(v.fields))
                for x in list(v.fields.values()):
                    walk(x)
            elif isinstance(v, ClassV) and v.module is not None:
                if id(v) in seen:
                    return
                seen.add(id(v))
                if id(v) not in static:
                    static[id(v)] = (v, dict(v.ns))
                for x in list(v.ns.values()):
                    walk(x)
            elif isinstance(v, tuple):
                for x in v:
                    walk(x)

        for m in self.modules.values():
            if m.loaded:
                if id(m) not in static:
                    static[id(m)] = (m, dict(m.ns))
                else:
                    static[id(m)] = (m, dict(m.ns)) if not getattr(self, "_static_dirty", False) else static[id(m)]
                for x in list(m.ns.values()):
                    walk(x)

    def touch_static(self, obj):
        if id(obj) in self.__dict__.get("_static", ()):
            self._static_dirty = True

    def restore_static(self):
        """undo what an earlier path wrote into module-level state (in place, identities are kept)"""
        from .closure import clone

        if not getattr(self, "_static_dirty", False):
            return
        for obj, saved in self.__dict__.get("_static", {}).values():
            if isinstance(obj, (DictV, ListV, SetV)):
                obj.items = clone(saved)
            elif isinstance(obj, Obj):
                obj.fields = clone(saved)
            elif isinstance(obj, (ClassV, ModuleV)):
                obj.ns.clear()
                obj.ns.update(saved)
        self._static_dirty = False

    def digest(self, rels=None):
        import hashlib

        h = hashlib.sha256()
        for m in sorted(self.modules.values(), key=lambda m: m.filename):
            if rels is None or m.filename in rels:
                h.update(m.filename.encode())
                h.update(m.src)
        return h.hexdigest()[:16]


# ----------------------------------------------------------------------------------------
class Frame:
    __slots__ = ("locals", "func", "module", "closure", "mangle", "owner", "self_arg", "is_class", "globals_decl", "nonlocal_decl", "site_fn", "yields", "gen")

    def __init__(self, module, func=None, closure=(), mangle=None, owner=None, is_class=False):
        self.locals = {}
        self.func = func
        self.module = module
        self.closure = list(closure)
        self.mangle = mangle
        self.owner = owner
        self.self_arg = None
        self.yields = None
        self.gen = None
        self.is_class = is_class
        self.globals_decl = set()
        self.nonlocal_decl = set()
        self.site_fn = func.qualname if func is not None else "<module>"


from .values import _Sentinel

MISSING = _Sentinel('MISSING')

OBJECT_ATTRS = (
    "__class__ __delattr__ __dir__ __doc__ __eq__ __format__ __ge__ __getattribute__ __getstate__ __gt__ "
    "__hash__ __init__ __init_subclass__ __le__ __lt__ __ne__ __new__ __reduce__ __reduce_ex__ __repr__ "
    "__setattr__ __sizeof__ __str__ __subclasshook__ __dict__ __module__ __weakref__"
).split()


class Interp:
    MAX_DEPTH = 60
    MAX_WHILE = 3

    def __init__(self, program, chooser=None, hooks=None):
        from . import models

        self.program = program
        self.chooser = chooser or Chooser()
        self.hooks = hooks
        self.trace = []
        self.path = []  # (atom, bool, site)
        self.decided = {}
        self.lazy_cache = {}
        self.listlen = {}
        self.ticks = 0
        self.generic_loop_fixed = None
        self.div_zero_fork = False
        self.exc_stack = []
        self.depth = 0
        self.frames = []
        self.load_mode = 0
        self.generic_loop_max = 2
        self.user_may_raise = False
        self.tunable_cells = False
        self.record_ctor = set()  # qualified class names whose constructor is recorded, not interpreted
        self.truncated = []
        self.models = models
        if getattr(program, '_builtins', None) is None:
            program._builtins = models.make_builtins(self)
        self.builtins = program._builtins
        self.steps = 0
        self.max_steps = 400000
        self.live_gens = []
        self.gen_stack = []
        self.ctx_choices = {}
        self.ctx_ticks = {}
        self.dead = False
        program.restore_static()
        self.chooser.cleanups.append(self.finish)
        if not getattr(program, "_prelude_builtins", False):
            program._prelude_builtins = True
            pm = models.model_module(self, "builtins")
            for k in ("filter", "map"):
                self.builtins[k] = pm.ns[k]

    def as_exc(self, v, node):
        """exception instance from what a raise statement / throw() was given"""
        if isinstance(v, ClassV):
            return self.instantiate(v, [], {}, node)
        return v

    def finish(self):
        """the path is over: suspended generators are unwound without being observed"""
        for g in list(self.live_gens):
            g.abandon()
        self.live_gens = []

    # ------------------------------------------------------------------ utilities
    def site(self, node):
        fr = self.frames[-1] if self.frames else None
        fn = fr.module.filename if fr else "?"
        return (fn, getattr(node, "lineno", 0), fr.site_fn if fr else "?")

    def emit(self, kind, name, args=(), kwargs=None, node=None, extra=None, callee=None):
        ev = Ev(kind, name, args, kwargs, self.site(node) if node is not None else None, extra, callee)
        if self.dead:
            return ev
        if self.gen_stack:
            ev.gen = tuple(g.uid for g in self.gen_stack)
        self.trace.append(ev)
        if name == "hal.waitForNotifierAlarm":
            self.ticks += 1
            for k in [None] + [g.uid for g in self.gen_stack]:
                self.ctx_ticks[k] = self.ctx_ticks.get(k, 0) + 1  # pacing points passed by this context (and what it called)
        if self.hooks is not None and hasattr(self.hooks, "on_event"):
            self.hooks.on_event(self, ev)
        return ev

    def unsupported(self, msg, node=None):
        fr = self.frames[-1] if self.frames else None
        raise Unsupported(msg, node, fr.module.filename if fr else None)

    def choose(self, n, label=None):
        if self.dead:
            return 0
        if self.load_mode:
            raise Unsupported(f"choice during module load: {label}")
        k = self.gen_stack[-1].uid if self.gen_stack else None
        self.ctx_choices[k] = self.ctx_choices.get(k, 0) + 1  # choices made by this generator body / by the plain call stack
        return self.chooser.choose(n, label)

    def own_ticks(self):
        return self.ctx_ticks.get(self.gen_stack[-1].uid if self.gen_stack else None, 0)

    def own_choices(self):
        return self.ctx_choices.get(self.gen_stack[-1].uid if self.gen_stack else None, 0)

    def decide(self, atom, node=None, label=None):
        """Truth value of an atom on this path (chosen once, then remembered)."""
        if atom in self.decided:
            return self.decided[atom]
        # consistency of strict comparisons:  l<0 true  =>  -l<0 false
        if atom[0] == "lt0":
            neg = atom[2].scale(-1)
            other = ("lt0", neg.key(), neg)
            if self.decided.get(other) is True:
                self.decided[atom] = False
                return False
            eq = atom[2] if True else None
            for cand in (atom[2], neg):
                if self.decided.get(("eq0", cand.key(), cand)) is True:
                    self.decided[atom] = False
                    return False
        if atom[0] == "eq0":
            neg = atom[2].scale(-1)
            for cand in (atom[2], neg):
                if self.decided.get(("lt0", cand.key(), cand)) is True:
                    self.decided[atom] = False
                    return False
        if self.hooks is not None and hasattr(self.hooks, "decide"):
            r = self.hooks.decide(self, atom, node)
            if r is not None:
                self.decided[atom] = r
                self.path.append((atom, r, self.site(node) if node is not None else None))
                return r
        c = self.choose(2, label or atom)
        val = bool(c)  # option 0 = False, option 1 = True
        self.decided[atom] = val
        self.path.append((atom, val, self.site(node) if node is not None else None))
        if self.hooks is not None and hasattr(self.hooks, "on_decide"):
            self.hooks.on_decide(self, atom, val, node)
        return val

    def truth(self, v, node=None):
        v = self.force(v, node)
        if v is None or v is False:
            return False
        if v is True:
            return True
        if isinstance(v, Cond):
            r = self.decide(v.atom, node)
            return r if v.pos else not r
        if isinstance(v, (int, Fraction)):
            return v != 0
        if isinstance(v, (str, bytes, tuple)):
            return len(v) > 0
        if isinstance(v, (ListV, SetV)):
            return len(v.items) > 0
        if isinstance(v, DictV):
            return len(v.items) > 0
        if isinstance(v, ListOf):
            return self.decide(("nonempty", v.uid), node)
        if self.is_flag(v):
            return v.fields["value"] != 0
        if isinstance(v, Obj):
            c, f = v.cls.lookup("__bool__")
            if f is not None:
                return self.truth(self.call(self.bind(f, v, c), [], {}, node), node)
            c, f = v.cls.lookup("__len__")
            if f is not None:
                n = self.call(self.bind(f, v, c), [], {}, node)
                return self.truth(cmp_cond("!=", n, 0), node)
            return True
        if isinstance(v, Sym):
            if v.kind == "num":
                return self.truth(cmp_cond("!=", v, 0), node)
            return self.decide(("truthy", v.key()), node)
        if isinstance(v, (Lin, App)):
            return self.truth(cmp_cond("!=", v, 0), node)
        if isinstance(v, SymStr):
            if any(isinstance(p, str) for p in v.parts):
                return True
            return self.decide(("truthy", v.key()), node)
        if isinstance(v, Ext):
            if v.role in ("module", "class", "function", "instance", "userfn", "bound"):
                return True
            return self.decide(("truthy", ("ext", v.uid), v.path), node)
        if isinstance(v, (FuncV, BoundMethod, BuiltinV, ClassV, ModuleV, PartialV, PropertyV, GenV)):
            return True
        self.unsupported(f"truthiness of {v!r}", node)

    def is_none(self, v, node=None):
        v = self.force(v, node)
        if v is None:
            return True
        if isinstance(v, Ext) and v.maybe_none:
            return self.decide(("isnone", ("ext", v.uid), v.path), node)
        if isinstance(v, Sym) and v.kind in ("obj", "any", "str") and v.tag is None:
            return self.decide(("isnone", v.key()), node)
        return False

    # ------------------------------------------------------------------ modules
    def module(self, name):
        m = self.program.modules.get(name)
        if m is None:
            raise Unsupported(f"anchor module {name} not found")
        if not m.loaded:
            self.load_module(m)
        return m

    def load_module(self, m):
        m.loaded = True
        m.ns["__name__"] = m.name
        fr = Frame(m)
        fr.locals = m.ns
        self.frames.append(fr)
        self.load_mode += 1
        try:
            self.exec_block(m.tree.body, fr)
        finally:
            self.load_mode -= 1
            self.frames.pop()
        if self.load_mode == 0:
            self.program.snapshot_static()

    def resolve_import(self, frame, modname, level):
        """-> ModuleV for repository modules, model module or Ext for everything else."""
        if level:
            base = frame.module.name.split(".")
            if not getattr(frame.module, "is_pkg", False):
                base = base[:-1]
            if level > 1:
                base = base[: -(level - 1)]
            full = ".".join(base + ([modname] if modname else []))
        else:
            full = modname
        if full in self.program.modules:
            return self.module(full)
        mm = self.models.model_module(self, full)
        if mm is not None:
            return mm
        if full.split(".")[0] in Program.PACKAGES:
            raise Unsupported(f"repository module {full} not found")
        return self.ext_root(full)

    def ext_root(self, path):
        cache = self.program.__dict__.setdefault("_ext_roots", {})
        if path not in cache:
            cache[path] = Ext(path, "lib", role="module")
        return cache[path]

    # ------------------------------------------------------------------ statements
    def exec_block(self, stmts, fr):
        for s in stmts:
            self.exec_stmt(s, fr)

    def exec_stmt(self, s, fr):
        self.steps += 1
        if self.steps > self.max_steps:
            raise Unsupported("step budget exceeded", s, fr.module.filename)
        m = getattr(self, "x_" + type(s).__name__, None)
        if m is None:
            self.unsupported(f"statement {type(s).__name__}", s)
        return m(s, fr)

    def x_Expr(self, s, fr):
        self.eval(s.value, fr)

    def x_Pass(self, s, fr):
        pass

    def x_Global(self, s, fr):
        fr.globals_decl.update(s.names)

    def x_Nonlocal(self, s, fr):
        fr.nonlocal_decl.update(self.mangle(n, fr) for n in s.names)

    def x_Import(self, s, fr):
        for a in s.names:
            if a.asname:
                self.store_name(a.asname, self.resolve_import(fr, a.name, 0), fr)
            else:
                top = a.name.split(".")[0]
                self.resolve_import(fr, a.name, 0)
                self.store_name(top, self.resolve_import(fr, top, 0), fr)

    def x_ImportFrom(self, s, fr):
        mod = self.resolve_import(fr, s.module, s.level)
        for a in s.names:
            if a.name == "*":
                if isinstance(mod, ModuleV):
                    for k, v in mod.ns.items():
                        if not k.startswith("_"):
                            self.store_name(k, v, fr)
                continue
            if isinstance(mod, ModuleV):
                if a.name in mod.ns:
                    v = mod.ns[a.name]
                else:
                    sub = (mod.name + "." + a.name)
                    if sub in self.program.modules:
                        v = self.module(sub)
                    elif getattr(mod, "ext_fallback", None):
                        v = self.getattr(mod, a.name, s)
                    else:
                        raise AbsRaise(self.make_exc("ImportError", f"cannot import {a.name}"), self.site(s), True)
            else:
                v = self.getattr(mod, a.name, s)
            self.store_name(a.asname or a.name, v, fr)

    def x_FunctionDef(self, s, fr):
        f = self.make_function(s, fr)
        for d in reversed(s.decorator_list):
            dec = self.eval(d, fr)
            f = self.call(dec, [f], {}, d)
        self.store_name(s.name, f, fr)

    x_AsyncFunctionDef = None

    def make_function(self, node, fr, name=None):
        args = node.args
        defaults = [self.eval(d, fr) for d in args.defaults]
        kwdefaults = {a.arg: self.eval(d, fr) for a, d in zip(args.kwonlyargs, args.kw_defaults) if d is not None}
        if fr.is_class:
            closure = fr.closure
            qual = f"{fr.site_fn}.{getattr(node, 'name', '<lambda>')}"
            owner_name = fr.site_fn
        else:
            closure = [fr.locals] + fr.closure if fr.func is not None else []
            qual = (fr.site_fn + "." if fr.func is not None else "") + getattr(node, "name", "<lambda>")
        f = FuncV(node, fr.module, closure, defaults, kwdefaults, qual, mangle=fr.mangle, owner=fr.owner)
        f.in_class_body = fr.is_class
        return f

    def x_ClassDef(self, s, fr):
        bases = [self.eval(b, fr) for b in s.bases]
        if s.keywords:
            self.unsupported("class keywords", s)
        cfr = Frame(fr.module, func=None, closure=([fr.locals] + fr.closure) if fr.func is not None else [], mangle=s.name.lstrip("_") and s.name, is_class=True)
        cfr.site_fn = s.name if fr.func is None and not fr.is_class else f"{fr.site_fn}.{s.name}"
        cfr.locals = {}
        cfr.locals["__annotations__"] = DictV()
        cls = ClassV(s.name, [b for b in bases if not self._is_object(b)], cfr.locals, fr.module, s, cfr.site_fn, mutable=not self.load_mode)
        cfr.owner = cls
        self.frames.append(cfr)
        try:
            self.exec_block(s.body, cfr)
        finally:
            self.frames.pop()
        cls.annotations = cls.ns["__annotations__"].items
        doc = ast.get_docstring(s, clean=False)
        cls.ns.setdefault("__doc__", doc)
        self.finish_class(cls, s)
        v = cls
        for d in reversed(s.decorator_list):
            v = self.call(self.eval(d, fr), [v], {}, d)
        self.store_name(s.name, v, fr)

    def _is_object(self, b):
        return isinstance(b, BuiltinV) and b.name == "object"

    def finish_class(self, cls, node=None):
        """__set_name__ protocol for members that define it."""
        if any(isinstance(b, Ext) and b.path.startswith("enum.") for c in cls.mro for b in c.bases):
            self.finish_enum(cls)
        if any(isinstance(b, Ext) and b.path == "typing.NamedTuple" for b in cls.bases):
            # class-syntax NamedTuple: the annotated names are the fields, class-level values their defaults
            cls.nt_fields = [k for k in cls.annotations if not str(cls.annotations[k]).startswith(("ClassVar", "typing.ClassVar"))]
            cls.nt_defaults = {k: cls.ns.pop(k) for k in list(cls.nt_fields) if k in cls.ns}
            cls.ns["_fields"] = tuple(cls.nt_fields)
        for k, v in list(cls.ns.items()):
            if isinstance(v, Obj):
                c, f = v.cls.lookup("__set_name__")
                if f is not None and v.cls.qualname not in self.record_ctor:
                    self.call(self.bind(f, v, c), [cls, k], {}, node)

    def finish_enum(self, cls):
        """enum members: one immutable singleton per name (identity comparisons work as in Python); for Flag
        classes every combination of bits is one canonical object as well"""
        paths = [b.path for c in cls.mro for b in c.bases if isinstance(b, Ext) and b.path.startswith("enum.")]
        is_flag = any(p in ("enum.Flag", "enum.IntFlag") for p in paths)
        members = {}
        last = None
        for k, v in list(cls.ns.items()):
            if not isinstance(k, str) or k.startswith("_") or isinstance(v, (FuncV, PropertyV, StaticV, ClassMethodV, BuiltinV)):
                continue
            if isinstance(v, Ext) and v.path.startswith("enum.auto"):
                if is_flag:
                    hi = max([m.fields["value"] for m in members.values() if isinstance(m.fields["value"], int)] + [0])
                    v = 1 << hi.bit_length() if hi else 1
                else:
                    v = last + 1 if isinstance(last, int) else 1
            last = v
            same = next((m for m in members.values() if type(m.fields["value"]) is type(v) and isinstance(v, (int, str)) and m.fields["value"] == v), None)
            m = same or ConstObj(cls, {"name": k, "value": v, "_name_": k, "_value_": v}, label=f"{cls.name}.{k}")
            cls.ns[k] = m
            members[k] = m
        cls.enum_members = members
        cls.flag_table = {m.fields["value"]: m for m in members.values() if isinstance(m.fields["value"], int)} if is_flag else None

    def flag_of(self, cls, value):
        t = cls.flag_table
        if value not in t:
            names = "|".join(k for k, m in cls.enum_members.items() if isinstance(m.fields["value"], int) and m.fields["value"] and m.fields["value"] & value == m.fields["value"])
            t[value] = ConstObj(cls, {"name": names or None, "value": value, "_name_": names or None, "_value_": value}, label=f"{cls.name}({value})")
        return t[value]

    def enum_lookup(self, cls, args, node):
        if len(args) != 1:
            self.unsupported("functional enum API", node)
        v = self.force(args[0], node)
        if isinstance(v, ConstObj) and v.cls is cls:
            return v
        if cls.flag_table is not None and isinstance(v, int) and not isinstance(v, bool):
            mask = 0
            for m in cls.enum_members.values():
                mask |= m.fields["value"]
            if v & ~mask == 0:
                return self.flag_of(cls, v)
        else:
            for m in cls.enum_members.values():
                if self.equal(m.fields["value"], v, node) is True:
                    return m
            if not isinstance(v, (int, str)):
                self.unsupported(f"enum lookup by {v!r}", node)
        raise AbsRaise(self.make_exc("ValueError", f"{v!r} is not a valid {cls.name}"), self.site(node), True)

    def is_flag(self, v):
        return isinstance(v, ConstObj) and getattr(v.cls, "flag_table", None) is not None

    BINOP_DUNDER = {"Add": "add", "Sub": "sub", "Mult": "mul", "Div": "truediv", "Mod": "mod", "BitXor": "xor", "BitAnd": "and", "BitOr": "or",
                    "LShift": "lshift", "RShift": "rshift", "FloorDiv": "floordiv", "Pow": "pow", "MatMult": "matmul"}

    def obj_binop(self, op, a, b, node):
        """operators on instances: Flag members by value, repository classes through their own dunder methods"""
        name = self.BINOP_DUNDER.get(type(op).__name__)
        if self.is_flag(a) and self.is_flag(b) and a.cls is b.cls and name in ("or", "and", "xor"):
            x, y = a.fields["value"], b.fields["value"]
            return self.flag_of(a.cls, x | y if name == "or" else x & y if name == "and" else x ^ y)
        if name is None:
            return NotImplemented
        if isinstance(a, Obj):
            c, f = a.cls.lookup(f"__{name}__")
            if isinstance(f, FuncV):
                return self.call(self.bind(f, a, c), [b], {}, node)
        if isinstance(b, Obj):
            c, f = b.cls.lookup(f"__r{name}__")
            if isinstance(f, FuncV):
                return self.call(self.bind(f, b, c), [a], {}, node)
        return NotImplemented

    def x_Return(self, s, fr):
        raise ReturnEx(self.eval(s.value, fr) if s.value is not None else None)

    def x_Break(self, s, fr):
        raise BreakEx()

    def x_Continue(self, s, fr):
        raise ContinueEx()

    def x_Assign(self, s, fr):
        v = self.eval(s.value, fr)
        for t in s.targets:
            self.assign(t, v, fr)

    def x_AnnAssign(self, s, fr):
        if fr.is_class and isinstance(s.target, ast.Name):
            fr.locals["__annotations__"].items[self.mangle(s.target.id, fr)] = ast.unparse(s.annotation)
        if s.value is not None:
            self.assign(s.target, self.eval(s.value, fr), fr)

    def x_AugAssign(self, s, fr):
        if isinstance(s.target, ast.Name):
            cur = self.load_name(s.target.id, fr, s.target)
        elif isinstance(s.target, ast.Attribute):
            obj = self.eval(s.target.value, fr)
            cur = self.getattr(obj, self.mangle(s.target.attr, fr), s.target)
        elif isinstance(s.target, ast.Subscript):
            obj = self.eval(s.target.value, fr)
            idx = self.eval(s.target.slice, fr)
            cur = self.subscript(obj, idx, s.target)
        else:
            self.unsupported("augassign target", s)
        rhs = self.eval(s.value, fr)
        if isinstance(cur, ListV) and isinstance(s.op, ast.Add):
            self.list_extend(cur, rhs, s)
            return
        if isinstance(cur, ListOf) and isinstance(s.op, ast.Add):
            self.emit("listof_extend", cur.label or "list", [cur, rhs], node=s)
            return
        v = self.binop(s.op, cur, rhs, s)
        if isinstance(s.target, ast.Name):
            self.store_name(s.target.id, v, fr)
        elif isinstance(s.target, ast.Attribute):
            self.setattr(obj, self.mangle(s.target.attr, fr), v, s.target)
        else:
            self.store_subscript(obj, idx, v, s.target)

    def assign(self, t, v, fr):
        if isinstance(t, ast.Name):
            self.store_name(t.id, v, fr)
        elif isinstance(t, ast.Attribute):
            obj = self.eval(t.value, fr)
            self.setattr(obj, self.mangle(t.attr, fr), v, t)
        elif isinstance(t, ast.Subscript) and isinstance(t.slice, ast.Slice):
            obj = self.eval(t.value, fr)
            lo = self.eval(t.slice.lower, fr) if t.slice.lower else None
            hi = self.eval(t.slice.upper, fr) if t.slice.upper else None
            st = self.eval(t.slice.step, fr) if t.slice.step else None
            if not isinstance(obj, ListV) or not all(x is None or isinstance(x, int) for x in (lo, hi, st)):
                self.unsupported(f"slice assignment on {obj!r}", t)
            obj.items[lo:hi:st] = list(self.materialize(v, t))
            self.mutated(obj, t)
        elif isinstance(t, ast.Subscript):
            obj = self.eval(t.value, fr)
            idx = self.eval(t.slice, fr)
            self.store_subscript(obj, idx, v, t)
        elif isinstance(t, (ast.Tuple, ast.List)):
            vals = self.unpack(v, len(t.elts), t)
            for e, x in zip(t.elts, vals):
                self.assign(e, x, fr)
        else:
            self.unsupported(f"assignment target {type(t).__name__}", t)

    def unpack(self, v, n, node):
        if isinstance(v, tuple):
            items = list(v)
        elif isinstance(v, ListV):
            items = list(v.items)
        elif isinstance(v, Ext):
            return [self.ext_child(v, f"[{i}]") for i in range(n)]
        elif isinstance(v, Sym):
            return [Sym(f"{v.name}[{i}]", "any", v.tag) for i in range(n)]
        else:
            self.unsupported(f"cannot unpack {v!r}", node)
        if len(items) != n:
            raise AbsRaise(self.make_exc("ValueError", "unpack length"), self.site(node), True)
        return items

    def ext_child(self, ext, suffix, **kw):
        key = suffix
        if key not in ext.attrs:
            ext.attrs[key] = Ext(ext.path + suffix, ext.origin, parent=ext, **kw)
        return ext.attrs[key]

    def x_If(self, s, fr):
        if self.load_mode:
            t = self.eval_load_test(s.test, fr)
            if t is None:
                return self.load_if_both(s, fr)
        else:
            t = self.truth(self.eval(s.test, fr), s.test)
        self.exec_block(s.body if t else s.orelse, fr)

    def eval_load_test(self, test, fr):
        """Module-level `if`: concrete tests are followed; unknown ones bind both branches."""
        try:
            v = self.eval(test, fr)
        except Unsupported:
            return None
        if isinstance(v, (Ext, Cond, Sym)):
            return None
        return self.truth(v, test)

    def load_if_both(self, s, fr):
        before = dict(fr.locals)
        self.exec_block(s.body, fr)
        a = dict(fr.locals)
        fr.locals.clear()
        fr.locals.update(before)
        self.exec_block(s.orelse, fr)
        b = dict(fr.locals)
        for k in set(a) | set(b):
            va, vb = a.get(k, MISSING), b.get(k, MISSING)
            if va is vb:
                continue
            if va is MISSING or vb is MISSING:
                raise Unsupported(f"module-level conditional binds {k} on one branch only", s, fr.module.filename)
            ka, kb = self.models.ext_kind(va), self.models.ext_kind(vb)
            if ka is None or ka != kb:
                raise Unsupported(f"module-level conditional binds {k} to values of different kinds ({va!r} / {vb!r})", s, fr.module.filename)
            fr.locals[k] = va

    def x_Assert(self, s, fr):
        if not self.truth(self.eval(s.test, fr), s.test):
            raise AbsRaise(self.make_exc("AssertionError", "assert"), self.site(s))

    def x_Raise(self, s, fr):
        if s.exc is None:
            if not self.exc_stack:
                raise AbsRaise(self.make_exc("RuntimeError", "No active exception to reraise"), self.site(s))
            self.emit("reraise", "raise", node=s)
            raise AbsRaise(self.exc_stack[-1], self.site(s))
        e = self.eval(s.exc, fr)
        if isinstance(e, ClassV):
            e = self.call(e, [], {}, s)
        self.emit("raise", self.exc_name(e), node=s)
        raise AbsRaise(e, self.site(s))

    def exc_name(self, e):
        if isinstance(e, Obj):
            return e.cls.name
        return repr(e)

    def x_Try(self, s, fr):
        try:
            try:
                self.exec_block(s.body, fr)
            except AbsRaise as ar:
                handler = self.match_handler(s.handlers, ar.exc, fr)
                if handler is None:
                    raise
                self.emit("catch", self.exc_name(ar.exc), node=handler, extra=ar.site)
                if handler.name:
                    self.store_name(handler.name, ar.exc, fr)
                self.exc_stack.append(ar.exc)
                try:
                    self.exec_block(handler.body, fr)
                finally:
                    self.exc_stack.pop()
            else:
                self.exec_block(s.orelse, fr)
        finally:
            if s.finalbody:
                self.exec_block(s.finalbody, fr)

    def match_handler(self, handlers, exc, fr):
        for h in handlers:
            if h.type is None:
                return h
            t = self.eval(h.type, fr)
            ts = list(t) if isinstance(t, tuple) else [t]
            for c in ts:
                if self.exc_isinstance(exc, c):
                    return h
        return None

    def exc_isinstance(self, exc, c):
        if isinstance(exc, Obj) and isinstance(c, ClassV):
            return exc.cls.is_subclass(c)
        return False

    def x_With(self, s, fr):
        if len(s.items) != 1:
            self.unsupported("multi-item with", s)
        it = s.items[0]
        mgr = self.eval(it.context_expr, fr)
        enter = self.getattr(mgr, "__enter__", s)
        exit_ = self.getattr(mgr, "__exit__", s)
        v = self.call(enter, [], {}, s)
        if it.optional_vars is not None:
            self.assign(it.optional_vars, v, fr)
        self.emit("with_enter", "with", [mgr], node=s)
        try:
            self.exec_block(s.body, fr)
        except AbsRaise as ar:
            self.emit("with_exit", "with", [mgr], node=s, extra="exc")
            etype = ar.exc.cls if isinstance(ar.exc, Obj) else Ext("exc_type", "lib", role="class")
            r = self.call(exit_, [etype, ar.exc, Ext("traceback", "lib", role="instance")], {}, s)
            if not self.truth(r, s):
                raise
        except (ReturnEx, BreakEx, ContinueEx):
            self.emit("with_exit", "with", [mgr], node=s)
            self.call(exit_, [None, None, None], {}, s)
            raise
        else:
            self.emit("with_exit", "with", [mgr], node=s)
            self.call(exit_, [None, None, None], {}, s)

    def x_While(self, s, fr):
        n = 0
        self.emit("loop_begin", "while", node=s)
        broke = False
        total = 0
        ticks = self.own_ticks()
        forked = 0
        c_body = self.own_choices()
        while True:
            c0 = self.own_choices()
            if c0 != c_body:
                forked += 1  # the previous iteration's body needed a choice (e.g. `if <unknown>: break`)
            if not self.truth(self.eval(s.test, fr), s.test):
                break
            # iterations count towards the bound when the loop test needed a choice, or when the previous
            # iteration passed a pacing point (NotifierDelay wait): loops over known data run to their end
            symbolic = self.own_choices() != c0 or (total > 0 and self.own_ticks() != ticks)
            ticks = self.own_ticks()
            total += 1
            if symbolic:
                n += 1
            c_body = self.own_choices()
            # (a loop whose continuation is decided by choices in its body doubles the paths per iteration: 6 at most)
            if n > self.MAX_WHILE or total > 4096 or forked > 6:
                self.truncated.append(("while", self.site(s)))
                raise PathAbort("while bound")
            self.emit("loop_iter", "while", [n], node=s, extra="symbolic" if symbolic else "concrete")
            try:
                self.exec_block(s.body, fr)
            except BreakEx:
                broke = True
                break
            except ContinueEx:
                continue
        self.emit("loop_end", "while", [n], node=s, extra="break" if broke else None)
        if not broke:
            self.exec_block(s.orelse, fr)

    def iterate(self, it, node):
        """-> ('known', [items]) or ('generic', source)"""
        if isinstance(it, (tuple, list)):
            return "known", list(it)
        if isinstance(it, Obj) and it.cls.lookup("__iter__")[1] is not None:
            r = self.obj_iter(it, node)
            if r is it:
                self.unsupported("iteration over an object that is its own iterator", node)
            return self.iterate(r, node)
        if isinstance(it, GenV):
            out = []
            while True:
                try:
                    out.append(it.next(node))
                except AbsRaise as ar:
                    if self.is_stop(ar):
                        return "known", out
                    raise
        if isinstance(it, (ListV, SetV)):
            stars = [x for x in it.items if isinstance(x, tuple) and len(x) == 2 and x[0] == "*" and not isinstance(x[1], (str, int))]
            if stars:
                if len(it.items) == 1:
                    return self.iterate(stars[0][1], node)  # a list filled only by extend(<unknown iterable>)
                self.unsupported("iteration over a list mixing known items and an unknown extension", node)
            return "known", list(it.items)
        if isinstance(it, frozenset):
            return "known", sorted(it, key=repr)
        if isinstance(it, IterV):
            if it.items is not None:
                rest = it.items[it.pos:]
                it.pos = len(it.items)
                return "known", rest
            if it.consumed:
                return "known", []
            it.consumed = True
            kind, items = self.iterate(it.source, node)
            if kind != "known":
                if it.fn is not None:
                    self.unsupported("filter/map over a list of unknown length", node)
                return kind, items
            if it.kind == "filter":
                if it.fn is None:
                    items = [x for x in items if self.truth(x, node)]
                else:
                    items = [x for x in items if self.truth(self.call(it.fn, [x], {}, node), node)]
            elif it.kind == "map":
                items = [self.call(it.fn, [x], {}, node) for x in items]
            it.items = list(items)
            it.pos = len(it.items)
            return "known", list(items)
        if isinstance(it, DictV):
            return "known", list(it.items.keys())
        if isinstance(it, str):
            return "known", list(it)
        if isinstance(it, (ListOf, Ext, Sym)):
            return "generic", it
        if isinstance(it, Obj) and it.cls.name == "_iterview":
            return self.iterate(it.fields["items"], node)
        self.unsupported(f"iteration over {it!r}", node)

    def generic_len(self, items, node):
        """consistent length of a list of unknown length on this path"""
        lk = getattr(items, "uid", None)
        src = getattr(items, "source", None)
        if src is not None and getattr(src, "uid", None) is not None:
            lk = src.uid
        if lk is not None and lk in self.listlen:
            return self.listlen[lk]
        if self.generic_loop_fixed is not None:
            k = self.generic_loop_fixed
        else:
            k = self.choose(self.generic_loop_max + 1, ("loop", self.site(node)))
        if lk is not None:
            self.listlen[lk] = k
        return k

    def materialize(self, it, node):
        """the items of an iterable as a Python list (lists of unknown length get their path-consistent length)"""
        kind, items = self.iterate(it, node)
        if kind == "known":
            return items
        k = self.generic_len(items, node)
        return [self.generic_elem(items, i) for i in range(k)]

    def generic_elem(self, src, i):
        if isinstance(src, ListOf):
            return self.models.instantiate_elem(self, src, i)
        if isinstance(src, Ext):
            return Ext(f"{src.path}[i{i}]", src.origin, parent=src, role="elem")
        return Sym(f"{src.name}[i{i}]", "any", src.tag)

    def obj_iter(self, v, node):
        """iter(v) for an instance of a repository class that defines __iter__"""
        if isinstance(v, Obj) and not isinstance(v, Ext):
            c, f = v.cls.lookup("__iter__")
            if f is not None:
                return self.call(self.bind(f, v, c), [], {}, node)
        return v

    def x_For(self, s, fr):
        it = self.obj_iter(self.eval(s.iter, fr), s)
        if isinstance(it, GenV):
            return self.for_generator(s, fr, it)
        pos0 = it.pos if isinstance(it, IterV) and it.items is not None else 0
        kind, items = self.iterate(it, s)
        broke = False
        if kind == "known":
            self.emit("loop_begin", "for", [len(items)], node=s, extra=("known", it))
            for i, x in enumerate(items):
                self.assign(s.target, x, fr)
                self.emit("loop_iter", "for", [i], node=s)
                try:
                    self.exec_block(s.body, fr)
                except BreakEx:
                    broke = True
                    if isinstance(it, IterV) and it.items is not None and not hasattr(it.items, "start"):
                        it.pos = pos0 + i + 1  # a one-shot iterator keeps what the loop did not take
                    break
                except ContinueEx:
                    continue
            self.emit("loop_end", "for", node=s, extra="break" if broke else None)
        else:
            k = self.generic_len(items, s)
            self.emit("loop_begin", "for", [k], node=s, extra=("generic", items))
            for i in range(k):
                self.assign(s.target, self.generic_elem(items, i), fr)
                self.emit("loop_iter", "for", [i], node=s)
                try:
                    self.exec_block(s.body, fr)
                except BreakEx:
                    broke = True
                    break
                except ContinueEx:
                    continue
            self.emit("loop_end", "for", node=s, extra="break" if broke else None)
        if not broke:
            self.exec_block(s.orelse, fr)

    def for_generator(self, s, fr, gen):
        """for-loop over a generator object: one resumption per iteration, the body in between (as in Python)"""
        self.emit("loop_begin", "for", [None], node=s, extra=("lazy", gen))
        broke = False
        i = 0
        try:
            while True:
                try:
                    x = gen.next(s)
                except AbsRaise as ar:
                    if self.is_stop(ar):
                        break
                    raise
                self.assign(s.target, x, fr)
                self.emit("loop_iter", "for", [i], node=s)
                i += 1
                try:
                    self.exec_block(s.body, fr)
                except BreakEx:
                    broke = True
                    break
                except ContinueEx:
                    continue
        except (AbsRaise, ReturnEx):
            if isinstance(s.iter, ast.Call) and gen.state == "suspended":
                gen.close(s)  # a temporary generator is finalised as soon as the loop is left
            raise
        if broke and isinstance(s.iter, ast.Call) and gen.state == "suspended":
            gen.close(s)
        self.emit("loop_end", "for", node=s, extra="break" if broke else None)
        if not broke:
            self.exec_block(s.orelse, fr)

    def x_Match(self, s, fr):
        subj = self.eval(s.subject, fr)
        for case in s.cases:
            if self.match_pattern(case.pattern, subj, fr) and (case.guard is None or self.truth(self.eval(case.guard, fr), case.guard)):
                self.exec_block(case.body, fr)
                return

    def match_pattern(self, pat, v, fr):
        if isinstance(pat, ast.MatchValue):
            return self.truth(self.equal(v, self.eval(pat.value, fr), pat), pat)
        if isinstance(pat, ast.MatchSingleton):
            return self.truth(self.identical(v, pat.value, pat), pat)
        if isinstance(pat, ast.MatchAs):
            if pat.pattern is not None and not self.match_pattern(pat.pattern, v, fr):
                return False
            if pat.name is not None:
                self.store_name(pat.name, v, fr)
            return True
        if isinstance(pat, ast.MatchOr):
            return any(self.match_pattern(p, v, fr) for p in pat.patterns)
        if isinstance(pat, ast.MatchSequence):
            if not isinstance(v, (tuple, ListV)):
                return False
            items = list(v) if isinstance(v, tuple) else v.items
            if any(isinstance(p, ast.MatchStar) for p in pat.patterns) or len(items) != len(pat.patterns):
                if not any(isinstance(p, ast.MatchStar) for p in pat.patterns):
                    return False
                self.unsupported("star pattern", pat)
            return all(self.match_pattern(p, x, fr) for p, x in zip(pat.patterns, items))
        if isinstance(pat, ast.MatchClass) and not pat.patterns and not pat.kwd_patterns:
            return self.truth(self.models.isinstance_(self, v, self.eval(pat.cls, fr), pat), pat)
        self.unsupported(f"match pattern {type(pat).__name__}", pat)

    def x_Delete(self, s, fr):
        self.unsupported("del", s)

    # ------------------------------------------------------------------ names
    def mangle(self, name, fr):
        if fr.mangle and name.startswith("__") and not name.endswith("__"):
            return "_" + fr.mangle.lstrip("_") + name
        return name

    def store_name(self, name, v, fr):
        name = self.mangle(name, fr)
        if name in fr.globals_decl:
            fr.module.ns[name] = v
            if not self.load_mode:
                self.program.touch_static(fr.module)
        elif name in fr.nonlocal_decl:
            for d in fr.closure:
                if name in d:
                    d[name] = v
                    return
            self.unsupported(f"nonlocal {name} not bound in an enclosing scope")
        else:
            fr.locals[name] = v

    def load_name(self, name, fr, node=None):
        name = self.mangle(name, fr)
        if name in fr.locals and name not in fr.globals_decl:
            return fr.locals[name]
        for d in fr.closure:
            if name in d:
                return d[name]
        if name in fr.module.ns:
            return fr.module.ns[name]
        if name in self.builtins:
            return self.builtins[name]
        if name == "__class__" and fr.owner is not None:
            return fr.owner
        raise AbsRaise(self.make_exc("NameError", f"name {name!r} is not defined"), self.site(node) if node else None, True)

    # ------------------------------------------------------------------ expressions
    def eval(self, e, fr):
        self.steps += 1
        m = getattr(self, "e_" + type(e).__name__, None)
        if m is None:
            self.unsupported(f"expression {type(e).__name__}", e)
        r = m(e, fr)
        if type(r) is LazyV and r.cell[0] is not UNRESOLVED:
            return r.cell[0]
        return r

    def force(self, v, node=None):
        if type(v) is LazyV:
            if v.cell[0] is UNRESOLVED:
                if not v.persist:
                    # re-chosen in every run, but stable within one run
                    if v.name not in self.lazy_cache:
                        self.lazy_cache[v.name] = v.options[self.choose(len(v.options), ("lazy", v.name))]
                    return self.lazy_cache[v.name]
                if self.hooks is not None and hasattr(self.hooks, "resolve_lazy"):
                    v.cell[0] = self.hooks.resolve_lazy(self, v, node)
                else:
                    v.cell[0] = v.options[self.choose(len(v.options), ("lazy", v.name))]
            return v.cell[0]
        return v

    def e_Constant(self, e, fr):
        v = e.value
        if isinstance(v, float):
            return _frac(v)
        if v is Ellipsis:
            return Sym("...", "any", uid=0)
        if isinstance(v, complex):
            self.unsupported("complex", e)
        return v

    def e_Name(self, e, fr):
        return self.load_name(e.id, fr, e)

    def e_Attribute(self, e, fr):
        obj = self.eval(e.value, fr)
        return self.getattr(obj, self.mangle(e.attr, fr), e)

    def e_Tuple(self, e, fr):
        out = []
        for x in e.elts:
            if isinstance(x, ast.Starred):
                k, items = self.iterate(self.eval(x.value, fr), x)
                if k != "known":
                    self.unsupported("star of unknown", x)
                out.extend(items)
            else:
                out.append(self.eval(x, fr))
        return tuple(out)

    def e_List(self, e, fr):
        return ListV(self.e_Tuple(e, fr))

    def e_Set(self, e, fr):
        return SetV(self.e_Tuple(e, fr))

    def e_Dict(self, e, fr):
        d = DictV()
        for k, v in zip(e.keys, e.values):
            if k is None:
                self.unsupported("dict **", e)
            d.items[self.hashable(self.eval(k, fr), e)] = self.eval(v, fr)
        return d

    def hashable(self, k, node):
        k = self.force(k, node)

        def unhashable(v):
            if isinstance(v, (ListV, DictV, SetV)):
                return type(v).__name__
            if isinstance(v, tuple):
                for x in v:
                    r = unhashable(x)
                    if r:
                        return r
            return None

        bad = unhashable(k)
        if bad:
            raise AbsRaise(self.make_exc("TypeError", f"unhashable type: '{ {'ListV': 'list', 'DictV': 'dict', 'SetV': 'set'}[bad]}'"), self.site(node), True)
        if isinstance(k, (str, int, bool, Fraction, bytes, tuple, type(None), frozenset, SymStr, Sym, Obj, ClassV, Ext, BuiltinV, FuncV)):
            return k
        self.unsupported(f"dict key {k!r}", node)

    def e_JoinedStr(self, e, fr):
        parts = []
        for v in e.values:
            if isinstance(v, ast.Constant):
                parts.append(v.value)
            else:
                x = self.eval(v.value, fr)
                parts.append(self.to_str(x, v, conv=v.conversion, spec=v.format_spec))
        return str_concat(*parts)

    def to_str(self, x, node=None, conv=-1, spec=None):
        x = self.force(x, node)
        if isinstance(x, str) and conv in (-1, 115) and spec is None:
            return x
        if isinstance(x, SymStr) and conv in (-1, 115) and spec is None:
            return x
        if isinstance(x, Sym) and x.kind == "str" and conv in (-1, 115) and spec is None:
            return SymStr((x,))
        if isinstance(x, bool) or x is None or (isinstance(x, int) and spec is None and conv == -1):
            return str(x)
        # anything else: an opaque piece that remembers its source value
        return SymStr((Sym("str(" + show(x)[:40] + ")", "str", tag=("strof", vkey(x))),))

    def e_FormattedValue(self, e, fr):
        return self.to_str(self.eval(e.value, fr), e, e.conversion, e.format_spec)

    def e_Lambda(self, e, fr):
        return self.make_function(e, fr)

    def e_IfExp(self, e, fr):
        return self.eval(e.body if self.truth(self.eval(e.test, fr), e.test) else e.orelse, fr)

    def e_BoolOp(self, e, fr):
        isand = isinstance(e.op, ast.And)
        v = None
        for i, x in enumerate(e.values):
            v = self.eval(x, fr)
            if i == len(e.values) - 1:
                return v
            t = self.truth(v, x)
            if isand and not t:
                return v if not isinstance(v, Cond) else False
            if not isand and t:
                return v if not isinstance(v, Cond) else True
        return v

    def e_UnaryOp(self, e, fr):
        v = self.eval(e.operand, fr)
        if isinstance(e.op, ast.Not):
            if isinstance(v, Cond):
                return v.negate()
            return not self.truth(v, e)
        if isinstance(e.op, ast.USub):
            return num_mul(-1, self.as_num(v, e))
        if isinstance(e.op, ast.UAdd):
            return self.as_num(v, e)
        if isinstance(e.op, ast.Invert):
            if self.is_flag(v):
                mask = 0
                for m in v.cls.enum_members.values():
                    mask |= m.fields["value"]
                return self.flag_of(v.cls, mask & ~v.fields["value"])
            if isinstance(v, int):
                return ~int(v)
            if isinstance(v, Obj):
                c, f = v.cls.lookup("__invert__")
                if isinstance(f, FuncV):
                    return self.call(self.bind(f, v, c), [], {}, e)
            return App("invert", (self.as_num(v, e),))
        self.unsupported("unary op", e)

    def as_num(self, v, node):
        if isinstance(v, bool):
            return int(v)
        if isinstance(v, (int, Fraction, Lin, App)):
            return v
        if isinstance(v, Sym):
            return v
        if isinstance(v, Ext):
            # numeric use of a third-party result: a number symbol tied to that handle
            if "num" not in v.attrs:
                v.attrs["num"] = Sym(v.path, "num", tag=("ext", v.uid))
            return v.attrs["num"]
        if isinstance(v, Cond):
            self.unsupported("arithmetic on symbolic bool", node)
        raise AbsRaise(self.make_exc("TypeError", f"not a number: {v!r}"), self.site(node), True)

    def e_BinOp(self, e, fr):
        a = self.eval(e.left, fr)
        b = self.eval(e.right, fr)
        return self.binop(e.op, a, b, e)

    def set_op(self, op, a, b, node):
        """- | & ^ on sets (elements compared with ==)"""
        def has(items, x):
            return any(self.truth(self.equal(x, y, node), node) for y in items)

        A, B = list(a.items), list(b.items)
        if isinstance(op, ast.Sub):
            return SetV([x for x in A if not has(B, x)])
        if isinstance(op, ast.BitAnd):
            return SetV([x for x in A if has(B, x)])
        if isinstance(op, ast.BitOr):
            return SetV(A + [x for x in B if not has(A, x)])
        return SetV([x for x in A if not has(B, x)] + [x for x in B if not has(A, x)])

    def binop(self, op, a, b, node):
        if isinstance(a, SetV) and isinstance(b, SetV) and isinstance(op, (ast.Sub, ast.BitAnd, ast.BitOr, ast.BitXor)):
            return self.set_op(op, a, b, node)
        if isinstance(a, Obj) or isinstance(b, Obj):
            r = self.obj_binop(op, a, b, node)
            if r is not NotImplemented:
                return r
        if isinstance(op, ast.Add):
            if isinstance(a, (str, SymStr)) or isinstance(b, (str, SymStr)) or (isinstance(a, Sym) and a.kind == "str") or (isinstance(b, Sym) and b.kind == "str"):
                return str_concat(self.to_str(a), self.to_str(b))
            if isinstance(a, tuple) and isinstance(b, tuple):
                return a + b
            if isinstance(a, ListV) and isinstance(b, ListV):
                return ListV(a.items + b.items)
            return num_add(self.as_num(a, node), self.as_num(b, node))
        if isinstance(op, ast.Sub):
            return num_add(self.as_num(a, node), self.as_num(b, node), -1)
        if isinstance(op, ast.Mult):
            for x, y in ((a, b), (b, a)):
                if isinstance(y, int) and not isinstance(y, bool):
                    if isinstance(x, ListV) and not any(isinstance(q, tuple) and len(q) == 2 and q[0] == "*" for q in x.items):
                        return ListV(x.items * y)
                    if isinstance(x, (str, tuple)) and type(x) in (str, tuple):
                        return x * y
            return num_mul(self.as_num(a, node), self.as_num(b, node))
        if isinstance(op, ast.Div):
            try:
                if self.div_zero_fork:
                    den = self.as_num(b, node)
                    if not isinstance(den, (int, Fraction)):
                        z = cmp_cond("==", den, 0)
                        if self.truth(z, node):
                            raise ZeroDivisionError
                return num_div(self.as_num(a, node), self.as_num(b, node))
            except ZeroDivisionError:
                raise AbsRaise(self.make_exc("ZeroDivisionError", "division by zero"), self.site(node), True)
        if isinstance(op, ast.Mod):
            if isinstance(a, (str, SymStr)):
                return SymStr((Sym("fmt%", "str", tag=("fmt", vkey(a))),))
            x, y = self.as_num(a, node), self.as_num(b, node)
            if isinstance(x, int) and isinstance(y, int) and y != 0:
                return x % y
            return App("mod", (x, y))
        if isinstance(op, ast.BitXor):
            x, y = self.as_num(a, node), self.as_num(b, node)
            if isinstance(x, int) and isinstance(y, int):
                return x ^ y
            if isinstance(x, int) and not isinstance(x, bool) and x == 0:
                return y
            if isinstance(y, int) and not isinstance(y, bool) and y == 0:
                return x
            return App("xor", tuple(sorted((x, y), key=lambda v: repr(vkey(v)))))
        if isinstance(op, (ast.BitAnd, ast.BitOr, ast.LShift, ast.RShift, ast.FloorDiv, ast.Pow)):
            x, y = self.as_num(a, node), self.as_num(b, node)
            name = type(op).__name__.lower()
            if isinstance(x, int) and isinstance(y, int):
                import operator as _o

                f = {"bitand": _o.and_, "bitor": _o.or_, "lshift": _o.lshift, "rshift": _o.rshift, "floordiv": _o.floordiv, "pow": _o.pow}[name]
                try:
                    return f(x, y)
                except ZeroDivisionError:
                    raise AbsRaise(self.make_exc("ZeroDivisionError", "division by zero"), self.site(node), True)
            return App(name, (x, y))
        self.unsupported(f"binary op {type(op).__name__}", node)

    def e_Compare(self, e, fr):
        left = self.eval(e.left, fr)
        result = True
        for i, (op, rn) in enumerate(zip(e.ops, e.comparators)):
            right = self.eval(rn, fr)
            r = self.compare(op, left, right, e)
            if i == len(e.ops) - 1 and result is True:
                return r
            if not self.truth(r, e):
                return False
            left = right
        return result

    def compare(self, op, a, b, node):
        if isinstance(op, (ast.Is, ast.IsNot)):
            r = self.identical(a, b, node)
            if isinstance(r, Cond):
                return r if isinstance(op, ast.Is) else r.negate()
            return r if isinstance(op, ast.Is) else not r
        if isinstance(op, (ast.In, ast.NotIn)):
            r = self.contains(b, a, node)
            if isinstance(r, Cond):
                return r if isinstance(op, ast.In) else r.negate()
            return r if isinstance(op, ast.In) else not r
        if isinstance(op, (ast.Eq, ast.NotEq)):
            r = self.equal(a, b, node)
            if isinstance(r, Cond):
                return r if isinstance(op, ast.Eq) else r.negate()
            return r if isinstance(op, ast.Eq) else not r
        sym = {ast.Lt: "<", ast.LtE: "<=", ast.Gt: ">", ast.GtE: ">="}[type(op)]
        return cmp_cond(sym, self.as_num(a, node), self.as_num(b, node))

    def identical(self, a, b, node):
        a, b = self.force(a, node), self.force(b, node)
        if a is None or b is None:
            other = b if a is None else a
            if other is None:
                return True
            if isinstance(other, Ext) and other.maybe_none:
                return Cond(("isnone", ("ext", other.uid), other.path))
            if isinstance(other, Sym) and other.kind in ("obj", "any", "str") and other.tag is None:
                return Cond(("isnone", other.key()))
            return False
        if isinstance(a, (bool, str, int)) and isinstance(b, (bool, str, int)):
            return type(a) is type(b) and a == b
        if isinstance(a, frozenset) or isinstance(b, frozenset):
            return a is b
        if isinstance(a, Sym) and isinstance(b, Sym):
            return a == b
        if isinstance(a, (Sym,)) or isinstance(b, (Sym,)):
            s, o = (a, b) if isinstance(a, Sym) else (b, a)
            if s.kind in ("num", "str", "bool") and isinstance(o, (Obj, ClassV, FuncV, BuiltinV, ModuleV, ListV, DictV, SetV)):
                return False  # a number / string / bool is never an object instance, a class, a function or a container
            return Cond(("is", s.key(), vkey(o)))
        return a is b

    def equal(self, a, b, node):
        a, b = self.force(a, node), self.force(b, node)
        if isinstance(a, (BuiltinV, BoundMethod, ModuleV, PartialV)) or isinstance(b, (BuiltinV, BoundMethod, ModuleV, PartialV)):
            if isinstance(a, BoundMethod) and isinstance(b, BoundMethod):
                return a.func is b.func and a.self_obj is b.self_obj
            return a is b
        if isinstance(a, Ext) and isinstance(b, Ext) and a is not b and not ({a.role, b.role} & {"module", "class", "function", "userfn", "bound"}):
            # two values produced by third-party / user code: equal or not is not known
            x, y = sorted((("ext", a.uid, a.path), ("ext", b.uid, b.path)))
            return Cond(("exteq", x, y))
        if isinstance(a, (Obj, Ext, ClassV, FuncV, ListV, DictV)) or isinstance(b, (Obj, Ext, ClassV, FuncV, ListV, DictV)):
            if isinstance(a, Obj) and a.cls.lookup("__eq__")[1] is not None:
                self.unsupported("__eq__", node)
            if isinstance(a, ListV) and isinstance(b, ListV):
                if len(a.items) != len(b.items):
                    return False
                return all(self.truth(self.equal(x, y, node), node) for x, y in zip(a.items, b.items))
            return a is b
        if a is None or b is None:
            return self.identical(a, b, node)
        if isinstance(a, frozenset) or isinstance(b, frozenset):
            return isinstance(a, frozenset) and isinstance(b, frozenset) and a == b
        if isinstance(a, (str, SymStr)) or isinstance(b, (str, SymStr)):
            return self.str_equal(a, b, node)
        if isinstance(a, bool) and isinstance(b, bool):
            return a == b
        if isinstance(a, tuple) and isinstance(b, tuple):
            if len(a) != len(b):
                return False
            return all(self.truth(self.equal(x, y, node), node) for x, y in zip(a, b))
        if isinstance(a, tuple) or isinstance(b, tuple):
            return False
        if isinstance(a, Sym) and a.kind != "num" or isinstance(b, Sym) and b.kind != "num":
            if isinstance(a, Sym) and isinstance(b, Sym) and a == b:
                return True
            s, o = (a, b) if isinstance(a, Sym) else (b, a)
            return Cond(("eq", s.key(), vkey(o)))
        if isinstance(a, Cond) or isinstance(b, Cond):
            self.unsupported("== on symbolic bool", node)
        return cmp_cond("==", self.as_num(a, node), self.as_num(b, node))

    def str_equal(self, a, b, node):
        if isinstance(a, str) and isinstance(b, str):
            return a == b
        if not isinstance(a, (str, SymStr, Sym)) or not isinstance(b, (str, SymStr, Sym)):
            return False
        ka, kb = vkey(a), vkey(b)
        if ka == kb:
            return True
        x, y = sorted((ka, kb), key=repr)
        return Cond(("streq", x, y))

    def contains(self, cont, item, node):
        cont, item = self.force(cont, node), self.force(item, node)
        if isinstance(cont, (tuple, list)):
            items = list(cont)
        elif isinstance(cont, (ListV, SetV)):
            if isinstance(cont, SetV):
                self.hashable(item, node)  # membership in a set hashes the item (TypeError for an unhashable one)
            items = cont.items
        elif isinstance(cont, DictV):
            self.hashable(item, node)
            if isinstance(item, (str, int, frozenset, tuple)) and item in cont.items:
                return True
            items = list(cont.items.keys())
        elif isinstance(cont, frozenset):
            items = list(cont)
        elif isinstance(cont, str):
            if isinstance(item, str):
                return item in cont
            return Cond(("substr", vkey(item), cont))
        elif isinstance(cont, SymStr):
            if isinstance(item, str) and any(isinstance(p, str) and item in p for p in cont.parts):
                return True
            return Cond(("substr", vkey(item), vkey(cont)))
        elif isinstance(cont, (Sym, Ext, ListOf)):
            return Cond(("in", vkey(item), vkey(cont) if not isinstance(cont, ListOf) else ("listof", cont.uid)))
        elif isinstance(cont, Obj) and cont.cls.name == "_dictview":
            return self.contains(cont.fields["target_dict"], item, node)
        elif self.is_flag(cont):
            if not (self.is_flag(item) and item.cls is cont.cls):
                raise AbsRaise(self.make_exc("TypeError", "unsupported operand type(s) for 'in'"), self.site(node), True)
            return item.fields["value"] & cont.fields["value"] == item.fields["value"]
        elif isinstance(cont, Obj) and isinstance(cont.cls.lookup("__contains__")[1], FuncV):
            c, f = cont.cls.lookup("__contains__")
            return self.truth(self.call(self.bind(f, cont, c), [item], {}, node), node)
        else:
            self.unsupported(f"'in' on {cont!r}", node)
        unknown = []
        for x in items:
            r = self.equal(item, x, node)
            if r is True:
                return True
            if r is not False:
                unknown.append(r)
        if not unknown:
            return False
        # symbolic membership in a known container: decided per element, in order
        for r in unknown:
            if self.truth(r, node):
                return True
        return False

    def e_Subscript(self, e, fr):
        obj = self.eval(e.value, fr)
        if isinstance(e.slice, ast.Slice):
            lo = self.eval(e.slice.lower, fr) if e.slice.lower else None
            hi = self.eval(e.slice.upper, fr) if e.slice.upper else None
            st = self.eval(e.slice.step, fr) if e.slice.step else None
            return self.slice(obj, lo, hi, st, e)
        idx = self.eval(e.slice, fr)
        return self.subscript(obj, idx, e)

    def slice(self, obj, lo, hi, st, node):
        if all(x is None or isinstance(x, int) for x in (lo, hi, st)):
            if isinstance(obj, (str, tuple)):
                return obj[lo:hi:st]
            if isinstance(obj, ListV):
                return ListV(obj.items[lo:hi:st])
            if isinstance(obj, (SymStr, Sym)) and st is None:
                return SymStr((Sym(f"{show(obj)}[{lo}:{hi}]", "str", tag=("slice", vkey(obj), lo, hi)),))
            if isinstance(obj, Ext):
                return self.ext_child(obj, f"[{lo}:{hi}]")
        if isinstance(obj, Ext) and st is None:
            return self.ext_child(obj, f"[{show(lo)}:{show(hi)}]")
        if isinstance(obj, (SymStr, Sym)) and st is None:
            # bounds that are not literal numbers: an opaque part of the string, identified by the bounds
            return SymStr((Sym(f"{show(obj)}[{show(lo)}:{show(hi)}]", "str", tag=("slice", vkey(obj), vkey(lo), vkey(hi))),))
        self.unsupported(f"slice of {obj!r}", node)

    def subscript(self, obj, idx, node):
        if isinstance(obj, (tuple, str)):
            if isinstance(idx, int):
                try:
                    return obj[idx]
                except IndexError:
                    raise AbsRaise(self.make_exc("IndexError", "index"), self.site(node), True)
        if isinstance(obj, ListV):
            if isinstance(idx, int):
                try:
                    return obj.items[idx]
                except IndexError:
                    raise AbsRaise(self.make_exc("IndexError", "index"), self.site(node), True)
            return App("index", (Sym(f"list#{obj.uid}", "any", uid=obj.uid), idx))
        if isinstance(obj, DictV):
            k = self.hashable(idx, node)
            if k in obj.items:
                return obj.items[k]
            for kk, vv in obj.items.items():
                if not isinstance(kk, type(k)) and not isinstance(k, (Sym, SymStr)):
                    continue
                r = self.equal(k, kk, node)
                if r is True or (r is not False and self.truth(r, node)):
                    return vv
            if getattr(obj, "default_factory", None) is not None:
                return obj.default_factory(k)
            raise AbsRaise(self.make_exc("KeyError", k), self.site(node), True)
        if isinstance(obj, Ext):
            return self.ext_child(obj, f"[{show(idx)}]")
        if isinstance(obj, (ClassV, BuiltinV)):
            return self.models.generic_alias(self, obj, idx)  # generic alias  X[T]
        if isinstance(obj, Obj):
            c, f = obj.cls.lookup("__getitem__")
            if f is not None:
                return self.call(self.bind(f, obj, c), [idx], {}, node)
            if obj.cls.name == "_dictview":
                return self.subscript(obj.fields["target_dict"], idx, node)
        if isinstance(obj, ListOf):
            return self.models.instantiate_elem(self, obj, 0)
        if isinstance(obj, Sym):
            return Sym(f"{obj.name}[{show(idx)}]", "any", tag=obj.tag)
        self.unsupported(f"subscript of {obj!r}", node)

    def mutated(self, container, node=None):
        if not self.load_mode:
            self.program.touch_static(container)
        if self.hooks is not None and hasattr(self.hooks, "on_mutate"):
            self.hooks.on_mutate(self, container, node)

    def store_subscript(self, obj, idx, v, node):
        if isinstance(obj, ListV) and isinstance(idx, int):
            obj.items[idx] = v
            self.mutated(obj, node)
            return
        if isinstance(obj, DictV):
            obj.items[self.hashable(idx, node)] = v
            self.mutated(obj, node)
            return
        if isinstance(obj, Ext):
            self.emit("ext" if obj.origin == "lib" else "user", obj.path + ".__setitem__", [idx, v], node=node, callee=obj)
            return
        if isinstance(obj, Obj) and obj.cls.name == "_dictview":
            return self.store_subscript(obj.fields["target_dict"], idx, v, node)
        self.unsupported(f"item assignment on {obj!r}", node)

    def e_ListComp(self, e, fr):
        out = []
        self.comp(e.generators, 0, fr, lambda f: out.append(self.eval(e.elt, f)), e)
        return ListV(out)

    def e_GeneratorExp(self, e, fr):
        """a generator expression is lazy: its first iterable is evaluated now, everything else when it is consumed"""
        first = self.eval(e.generators[0].iter, fr)
        gfr = Frame(fr.module, fr.func, closure=[fr.locals] + fr.closure, mangle=fr.mangle, owner=fr.owner)
        gfr.site_fn = fr.site_fn + ".<genexpr>"

        class _F:  # stands in for the generator's function object
            qualname = gfr.site_fn

        g = GenV(self, _F, gfr, e)

        def body(gen):
            self.comp(e.generators, 0, gfr, lambda f: gen.do_yield(self.eval(e.elt, f), e), e, first=first)

        g.body = body
        return g

    def e_SetComp(self, e, fr):
        return SetV(self.e_ListComp(e, fr).items)

    def e_DictComp(self, e, fr):
        d = DictV()

        def add(f):
            d.items[self.hashable(self.eval(e.key, f), e)] = self.eval(e.value, f)

        self.comp(e.generators, 0, fr, add, e)
        return d

    def comp(self, gens, i, fr, emit, node, first=MISSING):
        if i == len(gens):
            emit(fr)
            return
        g = gens[i]
        it = first if (i == 0 and first is not MISSING) else self.eval(g.iter, fr)
        kind, items = self.iterate(it, node)
        if kind != "known":
            k = self.generic_len(items, node)  # the same length as every other loop over this list on this path
            items = [self.generic_elem(items, j) for j in range(k)]
        sub = Frame(fr.module, fr.func, closure=[fr.locals] + fr.closure, mangle=fr.mangle, owner=fr.owner)
        sub.site_fn = fr.site_fn
        for x in items:
            self.assign(g.target, x, sub)
            if all(self.truth(self.eval(c, sub), c) for c in g.ifs):
                self.comp(gens, i + 1, sub, emit, node)

    def _gen_frame(self, fr, node):
        if getattr(fr, "gen", None) is None:
            self.unsupported("yield outside a generator function body", node)
        return fr.gen

    def is_stop(self, ar):
        return isinstance(ar.exc, Obj) and ar.exc.cls.name == "StopIteration"

    def e_Yield(self, e, fr):
        g = self._gen_frame(fr, e)
        return g.do_yield(self.eval(e.value, fr) if e.value is not None else None, e)

    def e_YieldFrom(self, e, fr):
        g = self._gen_frame(fr, e)
        src = self.eval(e.value, fr)
        if isinstance(src, GenV):
            sent = None
            while True:
                try:
                    y = src.next(e, sent)
                except AbsRaise as ar:
                    if self.is_stop(ar):
                        return ar.exc.fields.get("value")
                    raise
                try:
                    sent = g.do_yield(y, e)
                except AbsRaise:
                    src.close(e)
                    raise
        kind, items = self.iterate(src, e)
        if kind != "known":
            self.unsupported("yield from an iterable of unknown length", e)
        for x in items:
            g.do_yield(x, e)
        return None

    def e_NamedExpr(self, e, fr):
        v = self.eval(e.value, fr)
        self.assign(e.target, v, fr)
        return v

    def e_Starred(self, e, fr):
        self.unsupported("starred", e)

    def e_Call(self, e, fr):
        # zero-argument super()
        if isinstance(e.func, ast.Name) and e.func.id == "super" and not e.args:
            if fr.owner is None or fr.self_arg is None:
                self.unsupported("super() outside method", e)
            return SuperV(fr.owner, fr.self_arg)
        fn = self.eval(e.func, fr)
        args = []
        for a in e.args:
            if isinstance(a, ast.Starred):
                v = self.eval(a.value, fr)
                k, items = self.iterate(v, a)
                if k == "known":
                    args.extend(items)
                else:
                    args.append(("*", v))
            else:
                args.append(self.force(self.eval(a, fr), a))
        kwargs = {}
        for k in e.keywords:
            v = self.force(self.eval(k.value, fr), k.value)
            if k.arg is None:
                if isinstance(v, DictV):
                    for kk, vv in v.items.items():
                        kwargs[kk] = vv
                else:
                    kwargs["**"] = v
            else:
                kwargs[k.arg] = v
        return self.call(fn, args, kwargs, e)

    # ------------------------------------------------------------------ attribute access
    def bind(self, f, obj, cls=None):
        if isinstance(f, FuncV):
            return BoundMethod(f, obj)
        if isinstance(f, StaticV):
            return f.f
        if isinstance(f, ClassMethodV):
            return BoundMethod(f.f, obj.cls if isinstance(obj, (Obj, NTuple)) else obj)
        if isinstance(f, BuiltinV) and getattr(f, "is_method", False):
            return BoundMethod(f, obj)
        return f

    def is_tunable_obj(self, v):
        return isinstance(v, Obj) and v.cls.qualname in self.record_ctor and v.cls.name == "tunable"

    def getattr(self, obj, name, node=None, default=MISSING):
        r = self._getattr(obj, name, node)
        if r is MISSING:
            if default is not MISSING:
                return default
            raise AbsRaise(self.make_exc("AttributeError", f"{obj!r} has no attribute {name!r}"), self.site(node) if node is not None else None, True)
        return r

    def _getattr(self, obj, name, node):
        if isinstance(obj, NTuple):
            return self.ntuple_attr(obj, name, node)
        if isinstance(obj, GenV):
            g = obj
            table = {
                "__next__": lambda i, a, k, n: g.next(n),
                "send": lambda i, a, k, n: g.next(n, a[0]),
                "throw": lambda i, a, k, n: g.throw(i.as_exc(a[0], n), n),
                "close": lambda i, a, k, n: g.close(n),
                "__iter__": lambda i, a, k, n: g,
            }
            if name in table:
                return BuiltinV(f"generator.{name}", table[name])
            return MISSING
        if isinstance(obj, Obj):
            if name == "__class__":
                return obj.cls
            if name == "__dict__":
                return self.models.dictview(self, obj)
            c, v = obj.cls.lookup(name)
            if v is not None or c is not None:
                if isinstance(v, PropertyV):
                    return self.call(v.fget, [obj], {}, node)
                if self.tunable_cells and self.is_tunable_obj(v):
                    cell = "$tunable:" + name
                    if cell in obj.fields:
                        return obj.fields[cell]
                    return v.fields.get("default")
                if isinstance(v, Obj) and v.cls.qualname not in self.record_ctor:
                    gc, g = v.cls.lookup("__get__")
                    sc, s_ = v.cls.lookup("__set__")
                    if g is not None and s_ is not None:
                        return self.call(self.bind(g, v, gc), [obj, obj.cls], {}, node)
            if name in obj.fields:
                if self.hooks is not None and hasattr(self.hooks, "on_read"):
                    return self.hooks.on_read(self, obj, name, obj.fields[name], node)
                return obj.fields[name]
            if c is not None:
                if isinstance(v, Obj) and v.cls.qualname not in self.record_ctor:
                    gc, g = v.cls.lookup("__get__")
                    if g is not None:
                        return self.call(self.bind(g, v, gc), [obj, obj.cls], {}, node)
                return self.bind(v, obj, c)
            r = self.models.obj_builtin_attr(self, obj, name, node)
            if r is not MISSING:
                return r
            for b in obj.cls.ext_bases():
                return self.ext_inherited(obj, b, name)
            if getattr(obj.cls, "open_attrs", None) is not None:
                return obj.cls.open_attrs(self, obj, name, node)
            return MISSING
        if isinstance(obj, ClassV):
            if name == "__name__":
                return obj.name
            if name == "__mro__":
                return tuple(obj.mro) + (self.builtins["object"],)
            if name == "__dict__":
                return DictV(dict(obj.ns))
            if name == "__annotations__":
                return DictV(dict(obj.annotations))
            if name == "__class__":
                return self.builtins["type"]
            if name == "__bases__":
                return tuple(obj.bases) or (self.builtins["object"],)
            c, v = obj.lookup(name)
            if c is not None:
                if isinstance(v, (StaticV,)):
                    return v.f
                if isinstance(v, ClassMethodV):
                    return BoundMethod(v.f, obj)
                if isinstance(v, Obj) and v.cls.qualname not in self.record_ctor:
                    gc, g = v.cls.lookup("__get__")
                    if g is not None:
                        return self.call(self.bind(g, v, gc), [None, obj], {}, node)
                return v
            if name in OBJECT_ATTRS:
                return BuiltinV("object." + name)
            for b in obj.ext_bases():
                return self.ext_child(b, "." + name)
            if getattr(obj, "open_class_attrs", None) is not None:
                return obj.open_class_attrs(self, obj, name, node)
            return MISSING
        if isinstance(obj, ModuleV):
            if name in obj.ns:
                return obj.ns[name]
            sub = obj.name + "." + name
            if sub in self.program.modules:
                return self.module(sub)
            if getattr(obj, "ext_fallback", None):
                return self.ext_child(self.ext_root(obj.ext_fallback), "." + name)
            return MISSING
        if isinstance(obj, Ext):
            r = self.models.ext_attr(self, obj, name, node)
            if r is not MISSING:
                return r
            return self.ext_child(obj, "." + name)
        if isinstance(obj, SuperV):
            c, v = obj.obj.cls.lookup(name, start_after=obj.cls) if isinstance(obj.obj, Obj) else obj.obj.lookup(name, start_after=obj.cls)
            if c is not None:
                if isinstance(obj.obj, ClassV) and isinstance(v, FuncV):
                    return v
                return self.bind(v, obj.obj, c)
            r = self.models.super_builtin_attr(self, obj, name, node)
            if r is not MISSING:
                return r
            cls = obj.obj.cls if isinstance(obj.obj, Obj) else obj.obj
            for b in cls.ext_bases():
                return self.ext_inherited(obj.obj, b, name)
            return MISSING
        if isinstance(obj, BoundMethod):
            if name == "__func__":
                return obj.func
            if name == "__self__":
                return obj.self_obj
            return self._getattr(obj.func, name, node)
        if isinstance(obj, FuncV):
            if name == "__name__":
                return obj.name
            if name == "__doc__":
                return ast.get_docstring(obj.node, clean=False) if not isinstance(obj.node, ast.Lambda) else None
            if name == "__qualname__":
                return obj.qualname
            if name in obj.attrs:
                return obj.attrs[name]
            return MISSING
        r = self.models.value_attr(self, obj, name, node)
        return r

    def ext_inherited(self, obj, base, name):
        key = ("inh", name)
        store = obj.fields if isinstance(obj, Obj) else obj.ns
        k = "$ext:" + name
        if k not in store:
            e = Ext(f"{base.path}.{name}", "lib", role="inherited", parent=base)
            e.self_obj = obj
            store[k] = e
        return store[k]

    def setattr(self, obj, name, v, node=None):
        if isinstance(obj, Obj):
            c, cv = obj.cls.lookup(name)
            if isinstance(cv, PropertyV):
                if cv.fset is None:
                    raise AbsRaise(self.make_exc("AttributeError", "can't set attribute"), self.site(node), True)
                self.call(cv.fset, [obj, v], {}, node)
                return
            if self.tunable_cells and self.is_tunable_obj(cv):
                obj.fields["$tunable:" + name] = v
                self.emit("tunable_set", name, [obj, v], node=node)
                return
            if isinstance(cv, Obj) and cv.cls.qualname not in self.record_ctor:
                sc, s_ = cv.cls.lookup("__set__")
                if s_ is not None:
                    self.call(self.bind(s_, cv, sc), [obj, v], {}, node)
                    return
            obj.fields[name] = v
            if not self.load_mode:
                self.program.touch_static(obj)
            if self.hooks is not None and hasattr(self.hooks, "on_setattr"):
                self.hooks.on_setattr(self, obj, name, v, node)
            return
        if isinstance(obj, ClassV):
            if not obj.mutable and not self.load_mode:
                self.emit("class_write", f"{obj.qualname}.{name}", [v], node=node)
                self.program.touch_static(obj)
            obj.ns[name] = v
            return
        if isinstance(obj, FuncV):
            obj.attrs[name] = v
            return
        if isinstance(obj, Ext):
            self.emit("ext" if obj.origin == "lib" else "user", obj.path + ".__setattr__", [name, v], node=node, callee=obj, extra="setattr")
            obj.attrs["." + name] = v
            return
        if isinstance(obj, ModuleV):
            obj.ns[name] = v
            return
        self.unsupported(f"setattr on {obj!r}", node)

    def hasattr(self, obj, name, node=None):
        if isinstance(obj, Ext):
            k = "." + name
            if k in obj.attrs:
                return True
            return Cond(("hasattr", ("ext", obj.uid), obj.path, name))
        try:
            r = self._getattr(obj, name, node)
        except AbsRaise as ar:
            if isinstance(ar.exc, Obj) and ar.exc.cls.name == "AttributeError":
                return False
            raise
        if r is MISSING:
            if isinstance(obj, Obj) and getattr(obj.cls, "abstract_user", False):
                return Cond(("hasattr", ("obj", obj.uid), name))
            return False
        if isinstance(r, Ext) and r.role == "inherited" and isinstance(obj, Obj):
            # the name is not defined in the repository: whether the third-party base class has it is not known
            return Cond(("hasattr", ("obj", obj.uid), name))
        return True

    # ------------------------------------------------------------------ calls
    def make_exc(self, clsname, *args):
        cls = self.builtins[clsname]
        o = Obj(cls)
        o.fields["args"] = tuple(args)
        return o

    def call(self, fn, args, kwargs, node=None):
        self.depth += 1
        if self.depth > self.MAX_DEPTH:
            self.depth -= 1
            raise PathAbort("call depth")
        try:
            return self._call(fn, args, kwargs, node)
        finally:
            self.depth -= 1

    def _call(self, fn, args, kwargs, node):
        if isinstance(fn, BoundMethod):
            return self._call(fn.func, [fn.self_obj] + list(args), kwargs, node)
        if isinstance(fn, FuncV):
            return self.call_function(fn, args, kwargs, node)
        if isinstance(fn, BuiltinV):
            if fn.impl is None:
                self.unsupported(f"call of builtin {fn.name}", node)
            return fn.impl(self, args, kwargs, node)
        if isinstance(fn, ClassV):
            if getattr(fn, "enum_members", None) is not None:
                return self.enum_lookup(fn, args, node)
            return self.instantiate(fn, args, kwargs, node)
        if isinstance(fn, Ext):
            return self.call_ext(fn, args, kwargs, node)
        if isinstance(fn, PartialV):
            kw = dict(fn.kwargs)
            kw.update(kwargs)
            return self._call(fn.func, list(fn.args) + list(args), kw, node)
        if isinstance(fn, Obj):
            c, f = fn.cls.lookup("__call__")
            if f is not None:
                return self._call(self.bind(f, fn, c), args, kwargs, node)
        if isinstance(fn, StaticV):
            return self._call(fn.f, args, kwargs, node)
        if isinstance(fn, Sym):
            e = Ext(fn.name, "user", role="symcall")
            return self.call_ext(e, args, kwargs, node)
        self.unsupported(f"call of {fn!r}", node)

    def call_ext(self, fn, args, kwargs, node):
        if self.hooks is not None and hasattr(self.hooks, "ext_call"):
            r = self.hooks.ext_call(self, fn, args, kwargs, node)
            if r is not NotImplemented:
                return r
        return self.models.ext_call(self, fn, args, kwargs, node)

    def call_function(self, f, args, kwargs, node):
        a = f.node.args
        fr = Frame(f.module, f, closure=f.closure, mangle=f.mangle, owner=f.owner)
        pos = list(a.posonlyargs) + list(a.args)
        params = [p.arg for p in pos]
        nd = len(f.defaults)
        vals = {}
        args = list(args)
        stars = [j for j, x in enumerate(args) if isinstance(x, tuple) and len(x) == 2 and x[0] == "*" and isinstance(x[1], Ext)]
        if stars:
            # f(*third_party_tuple): the callee's signature fixes how many items the tuple must have
            need = len(params) - (len(args) - 1) - sum(1 for p in params if p in kwargs)
            if len(stars) != 1 or a.vararg or nd or need < 0:
                self.unsupported("*args of unknown length into a signature that does not fix the length", node)
            j = stars[0]
            args[j:j + 1] = [self.ext_child(args[j][1], f"[{i}]") for i in range(need)]
        kwargs = dict(kwargs)
        star_kw = kwargs.pop("**", None)
        for i, p in enumerate(params):
            if i < len(args):
                vals[p] = args[i]
                if p in kwargs:
                    raise AbsRaise(self.make_exc("TypeError", f"multiple values for {p}"), self.site(node), True)
            elif p in kwargs:
                vals[p] = kwargs.pop(p)
            elif i >= len(params) - nd:
                vals[p] = f.defaults[i - (len(params) - nd)]
            elif star_kw is not None:
                vals[p] = self.ext_child(star_kw, f"[{p!r}]") if isinstance(star_kw, Ext) else Sym(p, "any")
            else:
                raise AbsRaise(self.make_exc("TypeError", f"{f.qualname}() missing argument {p!r}"), self.site(node), True)
        extra = args[len(params):]
        if a.vararg:
            vals[a.vararg.arg] = tuple(extra)
        elif extra:
            raise AbsRaise(self.make_exc("TypeError", f"{f.qualname}() takes {len(params)} positional arguments but {len(args)} were given"), self.site(node), True)
        for p in a.kwonlyargs:
            if p.arg in kwargs:
                vals[p.arg] = kwargs.pop(p.arg)
            elif p.arg in f.kwdefaults:
                vals[p.arg] = f.kwdefaults[p.arg]
            else:
                raise AbsRaise(self.make_exc("TypeError", f"missing keyword-only argument {p.arg!r}"), self.site(node), True)
        if a.kwarg:
            d = DictV(kwargs)
            vals[a.kwarg.arg] = d
        elif kwargs:
            raise AbsRaise(self.make_exc("TypeError", f"{f.qualname}() got an unexpected keyword argument {next(iter(kwargs))!r}"), self.site(node), True)
        for k, v in vals.items():
            fr.locals[self.mangle(k, fr)] = v
        if params and args or params and params[0] in vals:
            fr.self_arg = vals.get(params[0]) if params else None
        if self.hooks is not None and hasattr(self.hooks, "intercept"):
            r = self.hooks.intercept(self, f, vals, node)
            if r is not NotImplemented:
                return r
        self.frames.append(fr)
        if self.hooks is not None and hasattr(self.hooks, "on_enter"):
            self.hooks.on_enter(self, f, vals, node)
        try:
            if isinstance(f.node, ast.Lambda):
                return self.eval(f.node.body, fr)
            if getattr(f, "is_gen", None) is None:
                f.is_gen = _has_own_yield(f.node)
            if f.is_gen:
                return GenV(self, f, fr, node)
            try:
                self.exec_block(f.node.body, fr)
            except ReturnEx as r:
                return r.value
            return None
        finally:
            self.frames.pop()
            if self.hooks is not None and hasattr(self.hooks, "on_exit"):
                self.hooks.on_exit(self, f, node)

    def make_ntuple(self, cls, args, kwargs, node):
        vals = []
        kwargs = dict(kwargs)
        if len(args) > len(cls.nt_fields):
            raise AbsRaise(self.make_exc("TypeError", f"{cls.name}() takes {len(cls.nt_fields)} positional arguments"), self.site(node), True)
        for j, name in enumerate(cls.nt_fields):
            if j < len(args):
                if name in kwargs:
                    raise AbsRaise(self.make_exc("TypeError", f"multiple values for {name}"), self.site(node), True)
                vals.append(args[j])
            elif name in kwargs:
                vals.append(kwargs.pop(name))
            elif name in cls.nt_defaults:
                vals.append(cls.nt_defaults[name])
            else:
                raise AbsRaise(self.make_exc("TypeError", f"{cls.name}() missing argument {name!r}"), self.site(node), True)
        if kwargs:
            raise AbsRaise(self.make_exc("TypeError", f"{cls.name}() got an unexpected keyword argument {next(iter(kwargs))!r}"), self.site(node), True)
        return NTuple(cls, vals)

    def ntuple_attr(self, obj, name, node):
        cls = obj.cls
        if name in cls.nt_fields:
            return obj[cls.nt_fields.index(name)]
        if name == "_fields":
            return tuple(cls.nt_fields)
        if name == "__class__":
            return cls
        if name == "_asdict":
            return BuiltinV("namedtuple._asdict", lambda i, a, k, n: DictV(dict(zip(cls.nt_fields, obj))))
        if name == "_replace":
            def repl(i, a, k, n):
                bad = [x for x in k if x not in cls.nt_fields]
                if bad:
                    raise AbsRaise(i.make_exc("ValueError", f"Got unexpected field names: {bad!r}"), i.site(n), True)
                return NTuple(cls, [k.get(f, v) for f, v in zip(cls.nt_fields, obj)])
            return BuiltinV("namedtuple._replace", repl)
        if name in ("count", "index"):
            self.unsupported(f"tuple.{name}", node)
        c, v = cls.lookup(name)
        if v is None and c is None:
            return MISSING
        if isinstance(v, PropertyV):
            return self.call(v.fget, [obj], {}, node)
        return self.bind(v, obj, c)

    def instantiate(self, cls, args, kwargs, node):
        if getattr(cls, "nt_fields", None) is not None:
            return self.make_ntuple(cls, args, kwargs, node)
        if cls.qualname in self.record_ctor:
            return self.models.record_construct(self, cls, args, kwargs, node)
        r = self.models.builtin_instantiate(self, cls, args, kwargs, node)
        if r is not MISSING:
            return r
        c, new = cls.lookup("__new__")
        if new is not None:
            f = new.f if isinstance(new, StaticV) else new
            obj = self.call(f, [cls] + list(args), kwargs, node)
        else:
            obj = Obj(cls)
        if isinstance(obj, Obj) and obj.cls.is_subclass(cls):
            c, init = obj.cls.lookup("__init__")
            if init is not None:
                self.call(self.bind(init, obj, c), args, kwargs, node)
            elif obj.cls.is_subclass(self.builtins["BaseException"]):
                obj.fields["args"] = tuple(args)
            elif (args or kwargs) and new is None and not obj.cls.ext_bases():
                raise AbsRaise(self.make_exc("TypeError", f"{cls.name}() takes no arguments"), self.site(node), True)
            elif obj.cls.ext_bases() and new is None:
                self.emit("ext", obj.cls.ext_bases()[0].path + ".__init__", args, kwargs, node=node)
        return obj

    # ------------------------------------------------------------------ containers
    def list_extend(self, lst, rhs, node):
        k, items = self.iterate(rhs, node)
        if k == "known":
            lst.items.extend(items)
        else:
            lst.items.append(("*", rhs))


def _frac(x):
    return Fraction(repr(x)) if x == x and x not in (float("inf"), float("-inf")) else Sym(repr(x), "num")
