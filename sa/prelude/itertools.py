# Pure-Python equivalents of itertools (after the recipes in the library documentation).  This file is never
# imported by CPython: the abstract interpreter parses and interprets it when analysed code imports itertools,
# so the functions are lazy exactly as the real ones are.


def accumulate(iterable, func=None, *, initial=None):
    it = iter(iterable)
    total = initial
    if initial is None:
        try:
            total = next(it)
        except StopIteration:
            return
    yield total
    for element in it:
        total = total + element if func is None else func(total, element)
        yield total


class chain:
    def __init__(self, *iterables):
        self._gen = _chain(iterables)

    def __iter__(self):
        return self._gen

    def __next__(self):
        return next(self._gen)

    @classmethod
    def from_iterable(cls, iterables):
        return _chain(iterables)


def _chain(iterables):
    for it in iterables:
        for element in it:
            yield element


def compress(data, selectors):
    for d, s in zip(data, selectors):
        if s:
            yield d


def dropwhile(predicate, iterable):
    it = iter(iterable)
    for x in it:
        if not predicate(x):
            yield x
            break
    for x in it:
        yield x


def filterfalse(predicate, iterable):
    if predicate is None:
        predicate = bool
    for x in iterable:
        if not predicate(x):
            yield x


def islice(iterable, *args):
    if len(args) == 1:
        start, stop, step = 0, args[0], 1
    elif len(args) == 2:
        start, stop, step = args[0], args[1], 1
    else:
        start, stop, step = args
    if start is None:
        start = 0
    if step is None:
        step = 1
    i = 0
    nxt = start
    for element in iterable:
        if stop is not None and i >= stop:
            return
        if i == nxt:
            yield element
            nxt += step
        i += 1


def pairwise(iterable):
    it = iter(iterable)
    try:
        a = next(it)
    except StopIteration:
        return
    for b in it:
        yield a, b
        a = b


def repeat(obj, times=None):
    if times is None:
        while True:
            yield obj
    else:
        for i in range(times):
            yield obj


def starmap(function, iterable):
    for args in iterable:
        yield function(*args)


def takewhile(predicate, iterable):
    for x in iterable:
        if not predicate(x):
            break
        yield x


def zip_longest(*iterables, fillvalue=None):
    lists = [list(it) for it in iterables]
    n = 0
    for l in lists:
        if len(l) > n:
            n = len(l)
    for i in range(n):
        yield tuple([l[i] if i < len(l) else fillvalue for l in lists])


def product(*iterables, repeat=1):
    pools = [tuple(pool) for pool in iterables] * repeat
    result = [[]]
    for pool in pools:
        result = [x + [y] for x in result for y in pool]
    for prod in result:
        yield tuple(prod)
