# Pure-Python stand-ins for collections classes (interpreted, never imported by CPython).


class deque:
    def __init__(self, iterable=(), maxlen=None):
        self._items = []
        self.maxlen = maxlen
        for x in iterable:
            self.append(x)

    def append(self, x):
        self._items.append(x)
        if self.maxlen is not None and len(self._items) > self.maxlen:
            self._items = self._items[1:]

    def appendleft(self, x):
        self._items = [x] + self._items
        if self.maxlen is not None and len(self._items) > self.maxlen:
            self._items = self._items[:-1]

    def extend(self, iterable):
        for x in iterable:
            self.append(x)

    def extendleft(self, iterable):
        for x in iterable:
            self.appendleft(x)

    def pop(self):
        if not self._items:
            raise IndexError("pop from an empty deque")
        x = self._items[-1]
        self._items = self._items[:-1]
        return x

    def popleft(self):
        if not self._items:
            raise IndexError("pop from an empty deque")
        x = self._items[0]
        self._items = self._items[1:]
        return x

    def clear(self):
        self._items = []

    def rotate(self, n=1):
        k = len(self._items)
        if k:
            n = n % k
            self._items = self._items[k - n:] + self._items[:k - n]

    def __len__(self):
        return len(self._items)

    def __bool__(self):
        return len(self._items) > 0

    def __iter__(self):
        return iter(list(self._items))

    def __getitem__(self, i):
        return self._items[i]

    def __contains__(self, x):
        return x in self._items


OrderedDict = dict


class ChainMap:
    def __init__(self, *maps):
        self.maps = list(maps) if maps else [{}]

    def __getitem__(self, key):
        for mapping in self.maps:
            if key in mapping:
                return mapping[key]
        raise KeyError(key)

    def get(self, key, default=None):
        for mapping in self.maps:
            if key in mapping:
                return mapping[key]
        return default

    def __contains__(self, key):
        for mapping in self.maps:
            if key in mapping:
                return True
        return False

    def _keys(self):
        # iteration order of ChainMap: mappings last to first, a key keeps the position of its first sighting
        d = {}
        for mapping in reversed(self.maps):
            for k in mapping:
                d[k] = None
        return list(d)

    def __iter__(self):
        return iter(self._keys())

    def __len__(self):
        return len(self._keys())

    def __bool__(self):
        return len(self._keys()) > 0

    def keys(self):
        return self._keys()

    def values(self):
        return [self[k] for k in self._keys()]

    def items(self):
        return [(k, self[k]) for k in self._keys()]

    def new_child(self, m=None):
        return ChainMap(m if m is not None else {}, *self.maps)

    @property
    def parents(self):
        return ChainMap(*self.maps[1:])
