# Stand-in for wpilib.Timer (semantics of WPILib's Timer class), interpreted by the analyser when a check asks for it.
# Time is wpilib.Timer.getFPGATimestamp() (seconds), which the analyser treats as a clock read.
import wpilib


class Timer:
    def __init__(self):
        self._startTime = 0.0
        self._accumulatedTime = 0.0
        self._running = False
        self.reset()

    def get(self):
        if self._running:
            return self._accumulatedTime + (wpilib.Timer.getFPGATimestamp() - self._startTime)
        return self._accumulatedTime

    def reset(self):
        self._accumulatedTime = 0.0
        self._startTime = wpilib.Timer.getFPGATimestamp()

    def start(self):
        if not self._running:
            self._startTime = wpilib.Timer.getFPGATimestamp()
            self._running = True

    def restart(self):
        if self._running:
            self.stop()
        self.reset()
        self.start()

    def stop(self):
        self._accumulatedTime = self.get()
        self._running = False

    def hasElapsed(self, seconds):
        return self.get() >= seconds

    def advanceIfElapsed(self, seconds):
        if self.get() >= seconds:
            # advance the start time by the period: the unused part of the elapsed time is kept
            self._startTime += seconds
            return True
        return False

    def isRunning(self):
        return self._running
