# Lazy builtins whose callbacks interleave with their consumer (interpreted, never imported by CPython).


def filter(function, iterable):
    for x in iterable:
        if (x if function is None else function(x)):
            yield x


def map(function, *iterables):
    if len(iterables) == 1:
        for x in iterables[0]:
            yield function(x)
    else:
        for args in zip(*iterables):
            yield function(*args)
