"""(B) Typestate closure under a most-general client (DESIGN.md 3.3 B).

The method transformers are computed by PyAbs from the syntax tree on every run; the client
is abstract: every order of public API calls, every outcome of every time comparison, every
in-state user action within the stated bounds.  Numeric fields are abstracted to one opaque
symbol per slot between client calls, so the typestate space is finite and is explored to a
fixed point.
"""
from __future__ import annotations

import copy
from collections import deque

from .interp import AbsRaise, Chooser, Interp, PathAbort
from .values import Unsupported
from .values import (
    App, BoundMethod, ClassV, ConstObj, NTuple, DictV, Ext, FuncV, LazyV, PartialV, Lin, ListOf, ListV, Obj, Sym, SymStr, UNRESOLVED, BuiltinV, Cond,
)


# ----------------------------------------------------------------------------------------
# canonical form / numeric abstraction of a world
# ----------------------------------------------------------------------------------------
def _is_symnum(v):
    from fractions import Fraction

    if isinstance(v, (int, Fraction)) and not isinstance(v, bool):
        return True
    return isinstance(v, (Lin, App)) or (isinstance(v, Sym) and v.kind == "num")


FOREVER = 10 ** 9


def clone(v, memo=None):
    """Structure-preserving copy of a world (faster than copy.deepcopy; immutable parts are shared)."""
    if memo is None:
        memo = {}
    t = type(v)
    if v is None or t in (bool, int, str, bytes, Sym, Lin, App, SymStr, Cond, FuncV, BuiltinV, Ext, ConstObj):
        return v
    i = id(v)
    if i in memo:
        return memo[i]
    if t is Obj:
        o = Obj.__new__(Obj)
        memo[i] = o
        o.cls = clone(v.cls, memo) if v.cls.mutable else v.cls
        o.label = v.label
        o.uid = v.uid
        o.fields = {k: clone(x, memo) for k, x in v.fields.items()}
        for k, x in v.__dict__.items():
            if k not in ("cls", "label", "uid", "fields"):
                o.__dict__[k] = x
        return o
    if t is DictV:
        d = DictV.__new__(DictV)
        memo[i] = d
        d.uid = v.uid
        d.items = {clone(k, memo) if type(k) is Obj else k: clone(x, memo) for k, x in v.items.items()}
        for k, x in v.__dict__.items():
            if k not in ("uid", "items"):
                d.__dict__[k] = x
        return d
    if t is ListV:
        l = ListV.__new__(ListV)
        memo[i] = l
        l.uid = v.uid
        l.items = [clone(x, memo) for x in v.items]
        return l
    if t is dict:
        d = {}
        memo[i] = d
        for k, x in v.items():
            d[k] = clone(x, memo)
        return d
    if t is tuple:
        return tuple(clone(x, memo) for x in v)
    if t is NTuple:
        return NTuple(v.cls, [clone(x, memo) for x in v])
    if t is ClassV and not v.mutable:
        return v
    r = copy.deepcopy(v, memo)
    return r


def _old(v, slot):
    """opaque per-slot symbol; values at least FOREVER away keep that one fact (C01.O1)"""
    from fractions import Fraction

    big = 0
    if isinstance(v, (int, Fraction)):
        big = v
    elif isinstance(v, Lin):
        big = v.const + sum(c * FOREVER for a, c in v.terms.items() if isinstance(a, Sym) and a.tag == "forever")
    elif isinstance(v, Sym) and v.tag == "forever":
        big = FOREVER
    if big >= FOREVER // 2:
        return Sym(f"forever:{slot}", "num", tag="forever", uid=0)
    return Sym(f"old:{slot}", "num", tag="old", uid=0)


def normalize(root, label="w"):
    """Replace every symbolic number stored in the heap by one opaque symbol per slot."""
    seen = set()

    def norm(x, path):
        """value to store in the slot `path` (tuples are rebuilt, containers are normalised in place)"""
        if _is_symnum(x):
            return _old(x, path)
        if isinstance(x, tuple) and not isinstance(x, NTuple):
            new = tuple(norm(y, f"{path}[{j}]") for j, y in enumerate(x))
            return new if any(a is not b for a, b in zip(new, x)) else x
        if isinstance(x, NTuple):
            new = [norm(y, f"{path}[{j}]") for j, y in enumerate(x)]
            return NTuple(x.cls, new) if any(a is not b for a, b in zip(new, x)) else x
        walk(x, path)
        return x

    def walk(v, path):
        if isinstance(v, ConstObj):
            return
        if isinstance(v, Obj):
            if id(v) in seen:
                return
            seen.add(id(v))
            for k in list(v.fields):
                v.fields[k] = norm(v.fields[k], f"{path}.{k}")
        elif isinstance(v, DictV):
            if id(v) in seen:
                return
            seen.add(id(v))
            for k in list(v.items):
                v.items[k] = norm(v.items[k], f"{path}[{k}]")
        elif isinstance(v, ListV):
            if id(v) in seen:
                return
            seen.add(id(v))
            for j in range(len(v.items)):
                v.items[j] = norm(v.items[j], f"{path}[{j}]")
        elif isinstance(v, dict):
            for k in list(v):
                v[k] = norm(v[k], f"{path}.{k}")
        elif isinstance(v, ClassV) and v.mutable:
            if id(v) in seen:
                return
            seen.add(id(v))
            for k, x in list(v.ns.items()):
                walk(x, f"{v.name}.{k}")
        elif isinstance(v, LazyV):
            if v.cell[0] is not UNRESOLVED:
                walk(v.cell[0], path)

    walk(root, label)


def numeric_slots(root, label="w"):
    """(path, value) of every numeric slot reachable from root; same path scheme as normalize()."""
    out = {}
    seen = set()

    def isnum(x):
        from fractions import Fraction

        return (isinstance(x, (int, Fraction)) and not isinstance(x, bool)) or isinstance(x, (Lin, App)) or (isinstance(x, Sym) and x.kind == "num")

    def visit(x, path):
        if isnum(x):
            out[path] = x
        elif isinstance(x, tuple):
            for j, y in enumerate(x):
                visit(y, f"{path}[{j}]")
        else:
            walk(x, path)

    def walk(v, path):
        if isinstance(v, ConstObj):
            return
        if isinstance(v, Obj):
            if id(v) in seen:
                return
            seen.add(id(v))
            for k, x in v.fields.items():
                visit(x, f"{path}.{k}")
        elif isinstance(v, DictV):
            if id(v) in seen:
                return
            seen.add(id(v))
            for k, x in v.items.items():
                visit(x, f"{path}[{k}]")
        elif isinstance(v, ListV):
            if id(v) in seen:
                return
            seen.add(id(v))
            for j, x in enumerate(v.items):
                visit(x, f"{path}[{j}]")
        elif isinstance(v, dict):
            for k, x in v.items():
                visit(x, f"{path}.{k}")
        elif isinstance(v, ClassV) and v.mutable:
            if id(v) in seen:
                return
            seen.add(id(v))
            for k, x in v.ns.items():
                walk(x, f"{v.name}.{k}")

    walk(root, label)
    return out


def canon(root):
    """Hashable canonical form of everything reachable from root (object identity by visit order)."""
    memo = {}

    def c(v):
        if v is None or isinstance(v, (bool, int, str, bytes)):
            return v
        if isinstance(v, (Sym, Lin, App, SymStr, Cond)):
            return repr(v)
        if isinstance(v, LazyV):
            return ("lazy", v.name, "?" if v.cell[0] is UNRESOLVED else c(v.cell[0]))
        if isinstance(v, ConstObj):
            return ("const", v.cls.qualname, v.label)
        if isinstance(v, Obj):
            if id(v) in memo:
                return ("ref", memo[id(v)])
            memo[id(v)] = len(memo)
            return ("obj", memo[id(v)], v.cls.name, tuple((str(k), c(x)) for k, x in sorted(v.fields.items(), key=lambda kv: str(kv[0]))))
        if isinstance(v, DictV):
            if id(v) in memo:
                return ("ref", memo[id(v)])
            memo[id(v)] = len(memo)
            return ("dict", tuple((c(k), c(x)) for k, x in v.items.items()))
        if isinstance(v, ListV):
            return ("list", tuple(c(x) for x in v.items))
        if isinstance(v, ListOf):
            return ("listof", v.label)
        if isinstance(v, tuple):
            return ("t", getattr(getattr(v, "cls", None), "qualname", None)) + tuple(c(x) for x in v)
        if isinstance(v, dict):
            return ("pd", tuple((str(k), c(x)) for k, x in sorted(v.items(), key=lambda kv: str(kv[0]))))
        if isinstance(v, (list,)):
            return ("pl", tuple(c(x) for x in v))
        if isinstance(v, (set, frozenset)):
            return ("ps", tuple(sorted(map(repr, v))))
        if isinstance(v, ClassV):
            if v.mutable:
                if id(v) in memo:
                    return ("ref", memo[id(v)])
                memo[id(v)] = len(memo)
                return ("cls", v.name, tuple((str(k), c(x)) for k, x in v.ns.items() if isinstance(x, (Obj, DictV, ListV))))
            return ("cls", v.qualname)
        if isinstance(v, Ext):
            return ("ext", v.path)
        if isinstance(v, (FuncV, BuiltinV)):
            return repr(v)
        if type(v).__name__ == "IterV":
            return ("iter", v.kind, v.consumed, c(v.source))
        if isinstance(v, PartialV):
            return ("partial", c(v.func), tuple(c(x) for x in v.args), tuple((k, c(x)) for k, x in sorted(v.kwargs.items())))
        if isinstance(v, BoundMethod):
            return ("bound", c(v.func), c(v.self_obj))
        from fractions import Fraction

        if isinstance(v, Fraction):
            return ("q", v.numerator, v.denominator)
        r = repr(v)
        if " at 0x" in r:
            raise Unsupported(f"canonical form of {type(v).__name__} would depend on an address")
        return r

    return c(root)


# ----------------------------------------------------------------------------------------
class Violation:
    def __init__(self, rule, message, client_seq, events, site=None, key=None):
        self.rule = rule
        self.message = message
        self.client_seq = client_seq
        self.events = events
        self.site = site
        self.key = key or (rule, message)

    def __repr__(self):
        return f"{self.rule}: {self.message}  after client sequence {' ; '.join(self.client_seq)}"


class ClosureResult:
    def __init__(self):
        self.states = 0
        self.transitions = 0
        self.paths = 0
        self.violations = []
        self.aborted = 0
        self.samples = []
        self.max_depth = 0
        self.run_events = 0


def close(program, world0, ghost0, client_actions, run_action, monitor, make_hooks, configure=None, max_states=200000, sample_every=97, check_world=None, stop_rules=None, frozen_roots=()):
    """Fixed point of `run_action` over all client actions from all reachable typestates.

    world0      heap (dict of roots) of the initial typestate
    ghost0      monitor ghost variables (plain dict of hashables)
    client_actions(world, ghost) -> list of action descriptors (hashable, printable)
    run_action(interp, world, action) -> observation dict (after the action)
    monitor(ghost, action, events, obs, outcome) -> (ghost', [ (rule, message, site) ])
    """
    res = ClosureResult()
    normalize(world0)
    k0 = (canon(world0), canon(ghost0))
    frozen0 = {r: canon(world0[r]) for r in frozen_roots}
    seen = {k0: (None, None)}
    store = {k0: (world0, ghost0)}
    queue = deque([k0])
    reported = set()
    trans_cache = {}
    while queue:
        key = queue.popleft()
        world, ghost = store.pop(key)
        res.states += 1
        import os, sys, time
        if os.environ.get('VERIF_DEBUG') and res.states % 50 == 0:
            print('..', res.states, len(seen), len(queue), res.paths, round(time.time(),0)%10000, file=sys.stderr)
        if res.states > max_states:
            raise Unsupported(f"typestate budget exceeded ({max_states}): the stored values are not abstracted to a finite set")
        for action in client_actions(world, ghost):
            ck = (key[0], action)
            runs = trans_cache.get(ck)
            if runs is None:
                # the interpretation of an action depends on the heap only, not on the monitor's ghosts:
                # it is computed once per (heap typestate, action) and replayed for every ghost valuation
                runs = []
                prefix = []
                while prefix is not None:
                    ch = Chooser(prefix)
                    hooks = make_hooks()
                    it = Interp(program, ch, hooks)
                    if configure is not None:
                        configure(it)
                    w = clone(world)
                    hooks.world = w
                    outcome = "return"
                    obs = None
                    try:
                        obs = run_action(it, w, action)
                    except AbsRaise as ar:
                        outcome = ("raise", ar)
                    except PathAbort as pa:
                        outcome = ("abort", pa.reason)
                    res.paths += 1
                    prefix = ch.next_prefix()
                    if isinstance(outcome, tuple) and outcome[0] == "abort":
                        res.aborted += 1
                        continue
                    wn = clone(w)
                    normalize(wn)
                    iso = [r for r in frozen_roots if canon(wn[r]) != frozen0[r]]
                    runs.append((hooks.events, obs, outcome, w, wn, canon(wn), [c for (_, c, _) in ch.log], iso))
                    res.run_events += len(hooks.events)
                trans_cache[ck] = runs
            for events, obs, outcome, w, wn, wkey2, choices, iso in runs:
                g2, viols = monitor(copy.deepcopy(ghost), action, events, obs, outcome, w)
                for r in iso:
                    viols = list(viols) + [("ISO", f"{show_action(action)} on one instance changes the state of another instance of the same class ({r}): per-instance records are shared between instances", None)]
                if stop_rules is not None:
                    # rules owned by other properties neither report nor cut the exploration here
                    viols = [v for v in viols if v[0] in stop_rules]
                res.transitions += 1
                if viols:
                    seq = client_sequence(seen, key) + [show_action(action)]
                    for rule, msg, site in viols:
                        vk = (rule, msg if site is None else site)
                        if vk in reported:
                            continue
                        reported.add(vk)
                        res.violations.append(Violation(rule, msg, seq, [repr(e) for e in events][-40:], site, vk))
                    continue  # do not explore beyond an error state
                k2 = (wkey2, canon(g2))
                if res.transitions % sample_every == 1 and len(res.samples) < 12:
                    res.samples.append({"client_sequence": client_sequence(seen, key) + [show_action(action)], "events": [repr(e) for e in events][:25], "observed": repr(obs), "choices": choices})
                if k2 not in seen:
                    seen[k2] = (key, show_action(action))
                    store[k2] = (wn, g2)
                    queue.append(k2)
    res.states = len(seen)
    return res


def client_sequence(seen, key):
    seq = []
    while key is not None:
        parent, act = seen[key]
        if act is not None:
            seq.append(act)
        key = parent
    return list(reversed(seq))


def show_action(a):
    if isinstance(a, tuple):
        name = a[0]
        args = ", ".join(f"{k}={v!r}" if k else repr(v) for k, v in a[1:]) if len(a) > 1 else ""
        return f"{name}({args})"
    return str(a)
