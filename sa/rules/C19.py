"""C19 - Toggle flips once per press; debouncers and rate limiters fire once per period."""
import ast
from fractions import Fraction as F

from .. import fn
from ..closure import close
from ..framework import AnalysisError
from ..interp import Interp
from ..values import Cond, Ext, Lin, ListOf, Obj, Sym, cmp_cond

EXPLANATION = (
    "C19.M1: typestate closure of Toggle (all fields boolean) under a most-general client that calls get(), .on, .off and bool() in any "
    "order with an arbitrary button sample each time; a monitor with ghost (previous sample, toggle value) requires that every accessor "
    "takes exactly one sample, the value flips iff the previous sample was released and this one is pressed, and on == not off == get(). "
    "C19.O1-O4: per-path obligations with symbolic fields and affine time atoms, roles inferred from use: the steady debouncer returns "
    "False only when at least a period has passed since the stored press time and writes that time only on the pressed path with this "
    "call's clock read; ButtonDebouncer.get returns True exactly on (pressed and now - latest > period, strict) and only there sets "
    "latest = now; PeriodicFilter.filter is truthy exactly on (now - last > period) or (level >= bypass) and sets last = now exactly on "
    "the former; SimpleWatchdog.isExpired is the strict comparison now > expiry, enable/reset/setTimeout store expiry = this call's "
    "clock read + timeout, and printIfExpired warns only when expired and more than 1e6 us after the last warning, storing now there and "
    "only there (also with no epochs recorded); the rate-limit anchors have no other writers.  The step from these per-call facts to "
    "'at most once per period' is the two-line induction in DESIGN.md section 7 (C19), assuming a non-decreasing clock.  Roles are "
    "inferred on slots (attributes, elements of stored tuples / named tuples, attributes of private records); wpilib.Timer objects are "
    "interpreted from sa/prelude/wpilib_timer.py (trusted model of WPILib's semantics), so an anchor kept inside a Timer is found too."
)
RULE = "one obligation per path of each accessor with symbolic fields; Toggle: exhaustive closure of its boolean typestate space"
EXHAUSTIVE = True


def writers_of(K, slot):
    return fn.effective_writers(K, fn.slot_root(slot))


def _writers_of_direct(K, field):
    out = set()
    for name, f in K.ns.items():
        node = getattr(fn.func_of(f), "node", None)
        if node is None:
            continue
        for n in ast.walk(node):
            if isinstance(n, ast.Attribute) and isinstance(n.ctx, ast.Store) and n.attr == field and isinstance(n.value, ast.Name) and n.value.id == "self":
                out.add(node.name)
    return out


def pathdesc(p):
    out = []
    for a, v, _ in p.path:
        if a[0] == "lt0":
            out.append(f"({a[2]!r} < 0)={v}")
        elif a[0] == "truthy":
            out.append(f"sample({a[-1]})={v}")
        else:
            out.append(f"{a[0]}={v}")
    return "; ".join(out) or "unconditional"


def holds(p, lin, strict=True):
    """the path condition contains  lin < 0  (strict) as a decided-true atom"""
    for a, v, _ in p.path:
        if a[0] == "lt0" and v and a[2] == lin:
            return True
    return False


def refuted(p, lin):
    for a, v, _ in p.path:
        if a[0] == "lt0" and not v and a[2] == lin:
            return True
    return False


def sample_of(p, needle="getRawButton"):
    for a, v, _ in p.path:
        if a[0] == "truthy" and needle in str(a[-1]):
            return v
    return None


# ----------------------------------------------------------------------------------------
def toggle_closure(ctx):
    K = fn.anchor(ctx, "robotpy_ext.control.toggle", "Toggle")
    site = (K.module.filename, K.node.lineno, "Toggle.get")
    it0 = Interp(ctx.program)
    joy = Ext("joystick", "user", role="instance")
    t = it0.call(K, [joy, Sym("button", "num", uid=0)], {})
    world = {"toggle": t}

    class H:
        def __init__(self):
            self.events = []
            self.world = None

        def on_event(self, it, ev):
            if ev.kind in ("user", "ext") and "getRawButton" in ev.name:
                self.events.append(("sample", ev))

        def on_decide(self, it, atom, val, node):
            if atom[0] == "truthy":
                self.events.append(("level", val))

    def run(it, w, action):
        o = w["toggle"]
        if action[0] in ("get", "__bool__"):
            r = it.call(it.getattr(o, action[0]), [], {})
        else:
            r = it.getattr(o, action[0])
        if isinstance(r, Cond):
            r = it.truth(r)
        return r

    def monitor(g, action, events, obs, outcome, w):
        V = []
        if isinstance(outcome, tuple):
            V.append(("C19.M1", f"Toggle.{action[0]} raises {fn.exc_name(outcome[1])}", site))
            return g, V
        ns = sum(1 for e in events if e[0] == "sample")
        lv = [e[1] for e in events if e[0] == "level"]
        if ns != 1 or len(lv) != 1:
            V.append(("C19.M1", f"Toggle.{action[0]} takes {ns} button samples (expected exactly one)", site))
            return g, V
        pressed = lv[0]
        value = g["value"] ^ (g["prev"] is False and pressed)
        exp = (not value) if action[0] == "off" else value
        if obs is not exp:
            V.append(("C19.M1", f"Toggle.{action[0]} returned {obs!r} with previous sample {'pressed' if g['prev'] else 'released'}, this sample {'pressed' if pressed else 'released'}, toggle value before {g['value']}; expected {exp}", site))
        g["value"] = value
        g["prev"] = pressed
        return g, V

    acts = [("get",), ("on",), ("off",), ("__bool__",)]
    r = close(ctx.program, world, {"prev": False, "value": False}, lambda w, g: acts, run, monitor, H)
    ctx.add("states", r.states)
    ctx.add("transitions", r.transitions)
    ctx.add("paths", r.paths)
    if not r.violations:
        ctx.ok("C19.M1", f"Toggle edge monitor held on all {r.transitions} transitions of {r.states} typestates")
    for v in r.violations:
        ctx.fail("C19.M1", f"{v.message} [client sequence: {' ; '.join(v.client_seq)}]", site=v.site, key=f"C19.M1|{v.message[:50]}")
    ctx.floor("Toggle typestates", r.states, 4)
    if r.samples:
        ctx.sample(r.samples[0])
    return K


def steady(ctx, K):
    SD = K.ns.get("_SteadyDebounce")
    if SD is None:
        # the debounced path of Toggle must exist in some form
        raise AnalysisError("Toggle's steady debouncer (used when debounce_period is given) not found")
    site = (K.module.filename, SD.node.lineno, "Toggle._SteadyDebounce.get")
    L, P = Sym("latest", "num", uid=0), Sym("P", "num", uid=0)

    def run(it, w):
        o = it.call(SD, [Ext("joystick", "user", role="instance"), Sym("button", "num", uid=0), P], {})
        nums = [k for k, v in fn.slots(o).items() if not isinstance(v, (Ext, bool)) and v is not None and k != "button"]
        # roles: the field initialised to -period is the anchor, the one equal to float(period) the period
        anchor = [k for k in nums if _lin_eq(fn.slots(o)[k], Lin.of(P).scale(-1))]
        period = [k for k in nums if _lin_eq(fn.slots(o)[k], P)]
        if len(anchor) != 1 or len(period) != 1:
            raise AnalysisError(f"cannot infer anchor/period fields of the steady debouncer: {dict(fn.slots(o).items())}")
        fn.slots(o)[anchor[0]] = L
        r = it.call(it.getattr(o, "get"), [], {})
        if isinstance(r, Cond):
            r = it.truth(r)
        now = [e.extra for e in it.trace if e.kind == "clock"]
        return r, fn.slots(o)[anchor[0]], now, anchor[0]

    paths = fn.all_paths(ctx, run)
    ctx.add("paths", len(paths))
    af = None
    for p in paths:
        if p.outcome != "return":
            ctx.fail("C19.O1", f"steady debouncer get() raises {fn.exc_name(p.value)}", site=site, key="C19.O1|raise")
            continue
        r, post, now, af = p.value
        if len(now) != 1:
            ctx.fail("C19.O1", f"steady debouncer reads the clock {len(now)} times", site=site, key="C19.O1|clock")
            continue
        n = now[0]
        within = Lin.of(n).add(L, -1).add(P, -1)  # now - latest - P  (< 0: inside the window)
        pressed = sample_of(p)
        if r is False:
            good = refuted(p, within) and pressed is False
            ctx.require(good, "C19.O1", "False only when the window has passed and the button is released", f"steady debouncer returns False on path [{pathdesc(p)}]: expected only when now - latest >= period and the button is released", site=site, key="C19.O1|false")
        if not _lin_eq(post, L):
            good = _lin_eq(post, n) and pressed is True and r is True
            ctx.require(good, "C19.O1", "press time written only on the pressed path, as this call's clock read", f"steady debouncer writes its press time = {post!r} on path [{pathdesc(p)}] (expected this call's clock read, only when a press is accepted)", site=site, key="C19.O1|write")
        elif pressed is True and r is True:
            ctx.fail("C19.O1", f"steady debouncer accepts a press without recording its time (path [{pathdesc(p)}])", site=site, key="C19.O1|nowrite")
        else:
            ctx.ok("C19.O1", f"path [{pathdesc(p)}] -> {r}")
    # Toggle(joystick, button, debounce_period) must sample through a steady debouncer built from its own arguments
    itw = Interp(ctx.program)
    joy = Ext("joystick", "user", role="instance")
    btn = Sym("button", "num", uid=0)
    tg = itw.call(K, [joy, btn, P], {})
    n0 = len(itw.trace)
    L2 = Sym("latest", "num", uid=0)
    owners = [v for v in tg.fields.values() if hasattr(v, "self_obj") and isinstance(getattr(v, "self_obj"), Obj)]
    wired = False
    for bm in owners:
        o = bm.self_obj
        vals = [v for _, v in fn.slots(o).items()]
        wired = wired or (any(v is joy for v in vals) and any(v is btn for v in vals) and any(_lin_eq(v, P) for v in vals if not isinstance(v, (Ext, bool)) and v is not None))
    ctx.require(wired, "C19.O1", "Toggle(debounce_period=P) samples through a steady debouncer on its joystick/button with period P", "Toggle(joystick, button, debounce_period) does not sample its own button through a steady debouncer with that period", site=site, key="C19.O1|wiring")
    if af:
        w = writers_of(SD, af)
        ctx.require(w <= {"__init__", "get"}, "C19.O1", f"press time written only by {sorted(w)}", f"the steady debouncer's press time is also written by {sorted(w - {'__init__', 'get'})}", site=site, key="C19.O1|writers")


def _lin_eq(a, b):
    try:
        return Lin.of(a) == Lin.of(b)
    except TypeError:
        return False


def button_debouncer(ctx):
    K = fn.anchor(ctx, "robotpy_ext.control.button_debouncer", "ButtonDebouncer")
    site = (K.module.filename, K.lookup("get")[1].node.lineno, "ButtonDebouncer.get")
    L, P = Sym("latest", "num", uid=0), Sym("P", "num", uid=0)

    # role of the anchor ("time of the last accepted press"): the one numeric slot that a get() call can change
    # (WPILib's Timer is interpreted from sa/prelude/wpilib_timer.py, so an anchor kept inside a Timer is found too)
    def probe(it, w):
        it.model_wpilib_timer = True
        o = it.call(K, [Ext("joystick", "user", role="instance"), Sym("buttonnum", "num", uid=0)], {"period": P})
        before = dict(fn.slots(o).items())
        it.call(it.getattr(o, "get"), [], {})
        after = dict(fn.slots(o).items())
        return [k for k in after if k in before and not isinstance(after[k], (Ext, bool)) and after[k] is not None and not _lin_eq(after[k], before[k])]

    changed = set()
    for q in fn.all_paths(ctx, probe):
        if q.outcome == "return":
            changed.update(q.value)
    if len(changed) != 1:
        raise AnalysisError(f"cannot infer the 'last accepted press' slot of ButtonDebouncer: get() changes {sorted(changed)}")
    the_anchor = next(iter(changed))

    def run(it, w):
        it.model_wpilib_timer = True
        o = it.call(K, [Ext("joystick", "user", role="instance"), Sym("buttonnum", "num", uid=0)], {"period": P})
        anchor = [the_anchor]
        fn.slots(o)[anchor[0]] = L
        r = it.call(it.getattr(o, "get"), [], {})
        if isinstance(r, Cond):
            r = it.truth(r)
        pressed = None
        now = [e.extra for e in it.trace if e.kind == "clock"]
        # evaluate the specification on the same path
        spec_gt = it.truth(cmp_cond(">", Lin.of(now[0]).add(L, -1).simplify(), P)) if now else None
        return r, fn.slots(o)[anchor[0]], now, anchor[0], spec_gt

    paths = fn.all_paths(ctx, run)
    ctx.add("paths", len(paths))
    ctx.floor("paths of ButtonDebouncer.get", len(paths), 3)
    af = None
    for p in paths:
        if p.outcome != "return":
            ctx.fail("C19.O2", f"ButtonDebouncer.get raises {fn.exc_name(p.value)}", site=site, key="C19.O2|raise")
            continue
        r, post, now, af, gt = p.value
        pressed = sample_of(p)
        if pressed is None:
            # the button was not sampled on this path: the result must not claim a press
            ctx.require(r is False, "C19.O2", "no sample => False", f"ButtonDebouncer.get returns {r!r} without sampling the button (path [{pathdesc(p)}])", site=site, key="C19.O2|nosample")
            exp = False if not gt else None
            if gt:
                ctx.fail("C19.O2", f"ButtonDebouncer.get does not sample the button although more than a period has passed (path [{pathdesc(p)}])", site=site, key="C19.O2|skip")
            continue
        exp = bool(pressed and gt)
        ctx.require(r is exp, "C19.O2", f"[{pathdesc(p)}] -> {r}", f"ButtonDebouncer.get returns {r!r} on path [{pathdesc(p)}]; expected {exp} (True exactly when pressed and now - latest > period, strictly)", site=site, key=f"C19.O2|ret|{exp}")
        if exp:
            ctx.require(_lin_eq(post, now[0]), "C19.O2", "latest' == now on the True path", f"after returning True, ButtonDebouncer stores {post!r} instead of this call's clock read: two True results could be less than a period apart", site=site, key="C19.O2|store")
        else:
            ctx.require(_lin_eq(post, L), "C19.O2", "latest unchanged on False paths", f"ButtonDebouncer.get changes its anchor to {post!r} although it returns False (path [{pathdesc(p)}]): a held button would never fire again", site=site, key="C19.O2|keep")
    if af:
        w = writers_of(K, af)
        ctx.require(w <= {"__init__", "get"}, "C19.O2", f"anchor written only by {sorted(w)}", f"ButtonDebouncer's anchor is also written by {sorted(w - {'__init__', 'get'})}", site=site, key="C19.O2|writers")


def periodic_filter(ctx):
    K = fn.anchor(ctx, "robotpy_ext.misc.periodic_filter", "PeriodicFilter")
    site = (K.module.filename, K.lookup("filter")[1].node.lineno, "PeriodicFilter.filter")
    L, P, B = Sym("last", "num", uid=0), Sym("P", "num", uid=0), Sym("bypass", "num", uid=0)
    lvl = Sym("level", "num", uid=0)

    def run(it, w):
        o = it.call(K, [P], {"bypass_level": B})
        anchor = [k for k, v in fn.slots(o).items() if _lin_eq(v, Lin.of(P).scale(-1))]
        if len(anchor) != 1:
            raise AnalysisError(f"cannot infer the 'last log' field of PeriodicFilter: {dict(fn.slots(o).items())}")
        fn.slots(o)[anchor[0]] = L
        for k, v in fn.slots(o).items():
            if isinstance(v, bool):
                fn.slots(o)[k] = Sym("flag_" + k, "bool", uid=0)  # whatever the previous call left behind
        rec = Ext("record", "user", role="instance")
        rec.attrs[".levelno"] = lvl
        r = it.call(it.getattr(o, "filter"), [rec], {})
        r = it.truth(r)
        now = [e.extra for e in it.trace if e.kind == "clock"]
        gt = it.truth(cmp_cond(">", Lin.of(now[0]).add(L, -1).simplify(), P)) if now else None
        ge = it.truth(cmp_cond(">=", lvl, B))
        return r, fn.slots(o)[anchor[0]], now, anchor[0], gt, ge

    paths = fn.all_paths(ctx, run)
    ctx.add("paths", len(paths))
    ctx.floor("paths of PeriodicFilter.filter", len(paths), 3)
    af = None
    for p in paths:
        if p.outcome != "return":
            ctx.fail("C19.O3", f"PeriodicFilter.filter raises {fn.exc_name(p.value)}", site=site, key="C19.O3|raise")
            continue
        r, post, now, af, gt, ge = p.value
        if ge:
            ctx.require(r is True, "C19.O3", "level >= bypass => passed", f"PeriodicFilter drops a record at or above its bypass level (path [{pathdesc(p)}])", site=site, key="C19.O3|bypass")
        if not ge:
            if len(now) != 1:
                ctx.fail("C19.O3", f"PeriodicFilter reads the clock {len(now)} times for a low-level record", site=site, key="C19.O3|clock")
                continue
            ctx.require(r is bool(gt), "C19.O3", f"low-level record passes iff period elapsed [{pathdesc(p)}]", f"PeriodicFilter {'passes' if r else 'drops'} a low-level record although now - last {'>' if gt else '<='} period (path [{pathdesc(p)}])", site=site, key=f"C19.O3|low|{r}")
            if r:
                ctx.require(_lin_eq(post, now[0]), "C19.O3", "last' == now when a low-level record passes", f"PeriodicFilter passes a low-level record but stores {post!r} instead of this call's clock read: more than one such record per period can pass", site=site, key="C19.O3|store")
        if now and not _lin_eq(post, L) and not _lin_eq(post, now[0]):
            ctx.fail("C19.O3", f"PeriodicFilter stores {post!r} as last-log time", site=site, key="C19.O3|badstore")
        if now and _lin_eq(post, now[0]) and not gt:
            ctx.fail("C19.O3", f"PeriodicFilter restarts its period although it has not elapsed (path [{pathdesc(p)}])", site=site, key="C19.O3|restart")
    if af:
        w = writers_of(K, af)
        helpers = {n for n in w if n not in ("__init__", "filter")}
        # helpers are fine if only filter calls them
        bad = set()
        for h in helpers:
            callers = set()
            for name, f in K.ns.items():
                node = getattr(fn.func_of(f), "node", None)
                if node is None:
                    continue
                for n in ast.walk(node):
                    if isinstance(n, ast.Call) and isinstance(n.func, ast.Attribute) and n.func.attr == h:
                        callers.add(name)
            if not callers <= {"filter"}:
                bad.add(h)
        ctx.require(not bad, "C19.O3", f"last-log time written only by filter() and its helper(s) {sorted(helpers)}", f"PeriodicFilter's last-log time is also written through {sorted(bad)}", site=site, key="C19.O3|writers")


def watchdog(ctx):
    K = fn.anchor(ctx, "robotpy_ext.misc.simple_watchdog", "SimpleWatchdog")
    sitef = lambda n: (K.module.filename, K.lookup(n)[1].node.lineno, f"SimpleWatchdog.{n}")
    T0 = Sym("timeout_s", "num", uid=0)

    def fresh(it):
        o = it.call(K, [T0], {})
        return o

    # roles from enable(): the fields that receive now and now + timeout
    it = Interp(ctx.program)
    o = fresh(it)
    tfield = [k for k, v in fn.slots(o).items() if not isinstance(v, (Ext, bool, int)) and v is not None and "int" in repr(v)]
    n0 = len(it.trace)
    it.call(it.getattr(o, "enable"), [], {})
    now = [e.extra for e in it.trace[n0:] if e.kind == "clock"]
    if len(now) != 1 or len(tfield) != 1:
        raise AnalysisError("SimpleWatchdog.enable does not read the clock exactly once / timeout field not found")
    tf = tfield[0]
    T = fn.slots(o)[tf]
    start_f = [k for k, v in fn.slots(o).items() if _lin_eq(v, now[0])]
    exp_f = [k for k, v in fn.slots(o).items() if _lin_eq(v, Lin.of(now[0]).add(T))]
    ok = len(start_f) == 1 and len(exp_f) == 1
    ctx.require(ok, "C19.O4", "enable(): start = now, expiry = now + timeout", f"after enable() no field holds (clock read + timeout): start candidates {start_f}, expiry candidates {exp_f}", site=sitef("enable"), key="C19.O4|enable")
    if not ok:
        return
    sf, ef = start_f[0], exp_f[0]
    ctx.cov["watchdog_roles"] = f"start={sf} expiry={ef} timeout={tf}"
    # reset() and setTimeout()
    for meth, args in (("reset", []), ("setTimeout", [Sym("t2", "num", uid=0)])):
        it = Interp(ctx.program)
        o = fresh(it)
        n0 = len(it.trace)
        it.call(it.getattr(o, meth), args, {})
        now = [e.extra for e in it.trace[n0:] if e.kind == "clock"]
        good = len(now) >= 1 and _lin_eq(fn.slots(o)[sf], now[-1]) and _lin_eq(fn.slots(o)[ef], Lin.of(now[-1]).add(fn.slots(o)[tf]))
        ctx.require(good, "C19.O4", f"{meth}(): expiry = this call's clock read + timeout", f"after {meth}() start={fn.slots(o)[sf]!r} expiry={fn.slots(o)[ef]!r} timeout={fn.slots(o)[tf]!r}: expiry is not (clock read of this call + timeout)", site=sitef(meth), key=f"C19.O4|{meth}")
    # isExpired
    E = Sym("expiry", "num", uid=0)
    it = Interp(ctx.program)
    o = fresh(it)
    fn.slots(o)[ef] = E
    n0 = len(it.trace)
    r = it.call(it.getattr(o, "isExpired"), [], {})
    now = [e.extra for e in it.trace[n0:] if e.kind == "clock"]
    want = cmp_cond(">", now[0], E) if now else None
    ctx.require(isinstance(r, Cond) and want is not None and r == want, "C19.O4", "isExpired() == (now > expiry), strict", f"isExpired() returns {r!r}; expected exactly (clock read > stored expiry)", site=sitef("isExpired"), key="C19.O4|isExpired")
    # printIfExpired
    LP = Sym("lastprint", "num", uid=0)
    it = Interp(ctx.program)
    o = fresh(it)
    zero_fields = [k for k, v in fn.slots(o).items() if isinstance(v, int) and not isinstance(v, bool) and v == 0 and k not in (sf, ef)]

    def run(it, w):
        o = fresh(it)
        fn.slots(o)[ef] = E
        fn.slots(o)[sf] = Sym("start", "num", uid=0)
        for k in zero_fields:
            fn.slots(o)[k] = Sym("anchor_" + k, "num", uid=0)
        # 0, 1 or 2 epochs recorded through the public API (whatever record type the class keeps them in)
        for j in range(it.choose(3, "epochs recorded")):
            it.call(it.getattr(o, "addEpoch"), [Sym(f"epoch{j}", "str", tag="nonnull", uid=0)], {})
        n0 = len(it.trace)
        it.call(it.getattr(o, "printIfExpired"), [], {})
        warns = [e for e in it.trace[n0:] if e.kind == "ext" and e.name.endswith(".warning")]
        now = [e.extra for e in it.trace[n0:] if e.kind == "clock"]
        return o, warns, now

    paths = fn.all_paths(ctx, run)
    ctx.add("paths", len(paths))
    anchors = set()
    for p in paths:
        if p.outcome != "return":
            ctx.fail("C19.O4", f"printIfExpired raises {fn.exc_name(p.value)}", site=sitef("printIfExpired"), key="C19.O4|print|raise")
            continue
        o, warns, now = p.value
        changed = [k for k in zero_fields if not (isinstance(fn.slots(o)[k], Sym) and fn.slots(o)[k].name == "anchor_" + k)]
        if warns:
            n = now[0] if now else None
            exp_ok = n is not None and holds(p, Lin.of(E).add(n, -1))  # expiry - now < 0
            rate = [k for k in zero_fields if n is not None and holds(p, Lin.of(F(1000000)).add(n, -1).add(Sym("anchor_" + k, "num", uid=0)))]
            good = exp_ok and len(rate) >= 1 and len(warns) == 1
            ctx.require(good, "C19.O4", "warning only when expired and more than 1e6 us after the last warning", f"printIfExpired warns on path [{pathdesc(p)}]: not guarded by (now > expiry) and (now - last warning > 1000000 us, strict)", site=sitef("printIfExpired"), key="C19.O4|print|guard")
            upd = [k for k in rate if _lin_eq(fn.slots(o)[k], n)]
            ctx.require(bool(upd), "C19.O4", "last-warning time := now on the warning path", f"printIfExpired warns without recording the time of this warning (path [{pathdesc(p)}]): the next call warns again immediately instead of at most once per second", site=sitef("printIfExpired"), key="C19.O4|print|store")
            anchors.update(rate)
        else:
            ctx.require(not changed, "C19.O4", "no warning => rate-limit anchor unchanged", f"printIfExpired changes {changed} without warning (path [{pathdesc(p)}])", site=sitef("printIfExpired"), key="C19.O4|print|keep")
    ctx.require(bool(anchors), "C19.O4", "printIfExpired has a warning path", "printIfExpired never warns", site=sitef("printIfExpired"), key="C19.O4|print|never")
    for a in anchors:
        w = writers_of(K, a)
        ctx.require(w <= {"__init__", "printIfExpired"}, "C19.O4", f"{a} written only by {sorted(w)}", f"the warning rate-limit anchor {a} is also written by {sorted(w - {'__init__', 'printIfExpired'})}", site=sitef("printIfExpired"), key="C19.O4|print|writers")
    w = writers_of(K, ef)
    ctx.require(w <= {"__init__", "enable", "reset", "setTimeout"}, "C19.O4", f"expiry written only by {sorted(w)}", f"the watchdog expiry is also written by {sorted(w - {'__init__', 'enable', 'reset', 'setTimeout'})}", site=sitef("enable"), key="C19.O4|writers")


def check(ctx):
    ctx.assume("python", "clock")
    ctx.rule("C19.M1", "Toggle: each accessor takes one sample; value flips iff previous sample released and this one pressed; on == not off == get()")
    ctx.rule("C19.O1", "steady debounce: False only after the window with button released; press time := this call's clock read only when a press is accepted")
    ctx.rule("C19.O2", "ButtonDebouncer.get == pressed and now - latest > period (strict); latest := now exactly there")
    ctx.rule("C19.O3", "PeriodicFilter.filter truthy == (now - last > period) or level >= bypass; last := now exactly when a low-level record passes")
    ctx.rule("C19.O4", "SimpleWatchdog: expiry = clock read + timeout on enable/reset/setTimeout; isExpired strict; warning guarded and rate-limited to one per 1e6 us")
    K = toggle_closure(ctx)
    steady(ctx, K)
    button_debouncer(ctx)
    periodic_filter(ctx)
    watchdog(ctx)
    ctx.floor("obligations", len(ctx.obligations), 25)
