"""Closure set-up and monitors for magicbot.StateMachine (C01-C04) and AutonomousStateMachine (C13).

Monitors are the transition tables of DESIGN.md Appendix C; they only look at observable
events (state-function calls with their arguments, calls of the public API with the caller
context, time comparisons that came out true) and at the public getters.
"""
from __future__ import annotations

from ..closure import FOREVER, close, numeric_slots
from ..interp import AbsRaise, Interp
from ..smworld import StateSpec, build_class, instantiate
from ..values import App, Ext, Lin, Obj, Sym

MODULE = "magicbot.state_machine"
ABSENT = "<absent>"
API = {"engage", "done", "next_state", "next_state_now", "execute", "on_enable", "on_disable", "on_iteration"}


def universes(tier, base="StateMachine"):
    """(name, [StateSpec], max_script, max_nest) - the machine shapes of DESIGN.md 7 (shared set-up).

    quick:    first (must_finish or not), reg, mf, optional default; all timed with lazy next_state links;
              in-state scripts of length <= 1 with next_state_now nesting <= 1.
    thorough: the same shapes also with untimed states, two four-state universes (a second, untimed regular
              state), all with scripts of length 1; and ONE timed universe (StateMachine only) in which a
              state call may make two next_state_now requests ("hand over now" twice: where the second request can get
              lost).  Unrestricted scripts of length 2 on every shape need
              tens of GB and hours; that was run once during development (it found D6) and is not a registered tier.
    """
    out = []
    for first_mf in (False, True):
        for with_default in (False, True):
            for kind in (("timed",) if tier == "quick" else ("timed", "state")):
                # (one universe per shape declares a literal zero duration: a legal "run exactly once" state)
                specs = [StateSpec("first", kind, first=True, must_finish=first_mf), StateSpec("reg", kind, duration=0 if first_mf else None), StateSpec("mf", kind, must_finish=True)]
                if with_default:
                    specs.append(StateSpec("dflt", "default", params=("tm", "state_tm", "initial_call")))
                name = f"{base}[{kind};first{'+mf' if first_mf else ''};{'default' if with_default else 'nodefault'}]"
                out.append((name, specs, 1, 1))
    if tier == "thorough":
        # a fourth state (a second, untimed regular state); five states need ~10-20 GB and 15-30 minutes per universe
        for with_default in (False, True):
            specs = [StateSpec("first", "timed", first=True), StateSpec("reg", "timed"), StateSpec("mf", "timed", must_finish=True), StateSpec("reg2", "state")]
            if with_default:
                specs.append(StateSpec("dflt", "default", params=("tm", "state_tm", "initial_call")))
            out.append((f"{base}[four states;{'default' if with_default else 'nodefault'}]", specs, 1, 1))
        if base == "StateMachine":
            specs = [StateSpec("first", "timed", first=True), StateSpec("reg", "timed"), StateSpec("mf", "timed", must_finish=True)]
            out.append((f"{base}[timed;first;nodefault;two next_state_now requests per state call]", specs, 2, 1))
    return out


class SMHooks:
    """Collects the observable events of one client call and plays the in-state action scripts."""

    module = MODULE
    api = API
    script_apis = ("next_state", "next_state_now", "done")

    def __init__(self, specs, max_script=1, max_nest=1):
        self.specs = {s.name: s for s in specs}
        self.targets = [s.name for s in specs if s.kind != "default"]
        self.max_script = max_script
        self.max_nest = max_nest
        self.events = []
        self.origin = "client"
        self.stack = []
        self.exec_depth = 0
        self.world = None
        self.fn_depth = 0
        self.post_done = False

    # -- API calls with caller context
    def on_enter(self, it, f, vals, node):
        if f.name in self.api and f.owner is not None and f.module.name == self.module:
            ctx = self.origin
            self.stack.append((f, self.origin))
            # calls made by the iteration logic itself are 'engine'; thin public wrappers
            # (next_state_now, on_disable, engage) pass their caller's context on
            self.origin = "engine" if f.name in ("execute", "on_iteration") else ctx
            args = tuple(v for k, v in list(vals.items())[1:])
            if f.name == "execute":
                self.exec_depth += 1
            self.events.append(("call", f.name, args, ctx, self.exec_depth if f.name == "execute" else None, f.owner.name))
        else:
            self.stack.append((f, None))

    def on_exit(self, it, f, node):
        f0, saved = self.stack.pop()
        if saved is not None:
            self.origin = saved
            if f.name == "execute":
                self.events.append(("ret", "execute", self.exec_depth))
                self.exec_depth -= 1
            else:
                self.events.append(("ret", f.name, None))

    def on_event(self, it, ev):
        if ev.kind == "clock":
            self.events.append(("clock", ev.extra, self.exec_depth))

    def on_decide(self, it, atom, val, node):
        if atom[0] == "lt0" and not val:
            self.events.append(("cmp_false", it.site(node) if node is not None else None, atom[2]))
        if atom[0] == "lt0" and val:
            self.events.append(("cmp_true", it.site(node) if node is not None else None, atom[2]))

    def decide(self, it, atom, node):
        """C01.O1: a term at least FOREVER (1e9 s) away from the others never changes sign."""
        if atom[0] == "lt0":
            lin = atom[2]
            big = lin.const + sum(c * FOREVER for a, c in lin.terms.items() if isinstance(a, Sym) and a.tag == "forever")
            if big >= FOREVER // 2:
                return False
            if big <= -(FOREVER // 2):
                return True
        return None

    def resolve_lazy(self, it, v, node):
        c = it.choose(len(v.options), ("lazy", v.name))
        return v.options[c]

    # -- state functions
    def ext_call(self, it, fn, args, kwargs, node):
        meta = getattr(fn, "meta", None)
        if meta is None or fn.role != "userfn":
            return NotImplemented
        names = [p for p, _ in meta["params"]]
        vals = dict(zip(names, args))
        name = meta["name"]
        self.events.append(("run", name, vals.get("tm", ABSENT), vals.get("state_tm", ABSENT), vals.get("initial_call", ABSENT), self.exec_depth, it.site(node)))
        spec = self.specs.get(name)
        machine = vals.get("self")
        if spec is None or spec.kind == "default" or not isinstance(machine, Obj):
            return None
        self.fn_depth += 1
        try:
            self.play_script(it, machine, node)
        finally:
            self.fn_depth -= 1
        return None

    def script_options(self):
        opts = [("none",)]
        for t in self.targets:
            opts.append(("next_state", t))
        if self.fn_depth <= self.max_nest and "next_state_now" in self.script_apis:
            for t in self.targets:
                opts.append(("next_state_now", t))
        opts.append(("done",))
        return opts

    def play_script(self, it, machine, node):
        # a script is at most max_script requests; after a done() one more request may follow ("give up, then ask
        # for a state after all"), so that every machine is also explored under contradictory state functions
        after_done = False
        for step in range(self.max_script + 1):
            if step >= self.max_script and not (after_done and self.post_done):
                return
            opts = self.script_options()
            if after_done:
                opts = [o for o in opts if o[0] in ("none", "next_state_now")]
            elif self.max_script > 1 and step == 0:
                # two-request scripts start with "hand over now" (the others are covered by length-1 scripts + closure)
                opts = [o for o in opts if o[0] in ("none", "next_state_now")] + [o for o in opts if o[0] not in ("none", "next_state_now")]
                self._first = opts[it.choose(len(opts), ("script", step))]
                a = self._first
                if a[0] == "none":
                    return
                saved = self.origin
                self.origin = "statefn"
                try:
                    self.events.append(("action", a))
                    it.call(it.getattr(machine, a[0]), list(a[1:]), {}, node)
                finally:
                    self.origin = saved
                if a[0] != "next_state_now":
                    return  # single request
                continue
            if self.max_script > 1 and step == 1 and not after_done:
                opts = [o for o in opts if o[0] in ("none", "next_state_now")]  # "hand over now" twice in one call
            a = opts[it.choose(len(opts), ("script", step))]
            if a[0] == "none":
                return
            saved = self.origin
            self.origin = "statefn"
            try:
                self.events.append(("action", a))
                it.call(it.getattr(machine, a[0]), list(a[1:]), {}, node)
            finally:
                self.origin = saved
            if after_done:
                return
            if a[0] == "done":
                after_done = True


# ----------------------------------------------------------------------------------------
def sm_actions(specs, base):
    targets = [s.name for s in specs if s.kind != "default"]
    if base == "StateMachine":
        acts = [("engage",), ("engage", ("force", True))]
        for t in targets:
            acts.append(("engage", ("initial_state", t)))
            acts.append(("engage", ("initial_state", t), ("force", True)))
        acts += [("done",), ("on_disable",), ("on_enable",), ("execute",)]
    else:
        acts = [("on_enable",), ("on_iteration",), ("on_disable",), ("done",)]
    return acts


def client_actions(specs, base):
    acts = sm_actions(specs, base)

    def actions(w, g):
        if base != "StateMachine":
            # client bounds (DESIGN.md appendix A): the selector never calls on_iteration() before the first
            # on_enable(), and never calls on_enable() on a mode that is still running (on_disable() comes first)
            out = acts
            if not g["enabled_once"]:
                out = [a for a in out if a[0] != "on_iteration"]
            if g["armed"] or g["contra"]:
                # (after a state function that gave up and then asked for a state in the same call the selector's
                #  on_disable() comes before the next on_enable(), as it does at the end of every autonomous period)
                out = [a for a in out if a[0] != "on_enable"]
            return out
        return acts

    return actions


def run_sm_action(it: Interp, world, action):
    m = world["machine"]
    name = action[0]
    kwargs = {k: v for k, v in action[1:]}
    args = []
    if name == "on_iteration":
        args = [Sym("auto_tm", "num")]
    it.call(it.getattr(m, name), args, kwargs)
    return {"is_executing": it.getattr(m, "is_executing"), "current_state": it.getattr(m, "current_state")}


def make_world(program, specs, base, configure):
    it = Interp(program)
    configure(it)
    cls, wrappers = build_class(it, MODULE, base, specs)
    m = instantiate(it, cls)
    other = instantiate(it, cls)  # a second, idle instance of the same class: it must never be affected (rule ISO)
    for x in (m, other):
        # injected by MagicRobot (declared on the class): a third-party logger whose calls are ignorable events
        x.fields["logger"] = Ext("logging.getLogger(<component name>)", "lib", role="instance")
        for sp in specs:
            if sp.kind == "timed":
                # as if the duration topic had been edited before entry: differs from the decorator value
                x.fields["$tunable:" + sp.name + "_duration"] = Sym("ntdur_" + sp.name, "num", tag="duration", uid=0)
    if base == "StateMachine" or True:
        cls.mutable = False  # nothing writes the class after construction (checked: class_write events)
    return {"machine": m, "other": other}, it


def configure(it):
    it.record_ctor.add("tunable")
    it.tunable_cells = True


GHOST0 = {"eng": False, "last": None, "interv": True, "fresh": None, "was_running": False, "cs_prev": None, "armed": False, "enabled_once": False, "contra": False}


class SMMonitor:
    """Appendix C of DESIGN.md, with the ghosts that are functions of others folded away:
    idle == not was_running and not eng;  a done() call (any caller) clears was_running;
    a client done()/on_disable() withdraws eng;  cs_prev is dropped (None) by any client call
    other than a plain engage()."""

    def __init__(self, specs, base):
        self.specs = {s.name: s for s in specs}
        self.base = base
        self.first = [s.name for s in specs if s.first][0]
        self.timing = TimingMonitor(specs, base)

    def regular(self, s):
        sp = self.specs[s]
        return sp.kind != "default" and not sp.must_finish

    def is_default(self, s):
        return self.specs[s].kind == "default"

    def __call__(self, g, action, events, obs, outcome, world):
        V = []
        auto = self.base != "StateMachine"

        def err(rule, msg, site=None):
            V.append((rule, msg, site))

        if isinstance(outcome, tuple) and outcome[0] == "raise":
            ar = outcome[1]
            en = ar.exc.cls.name if isinstance(ar.exc, Obj) else repr(ar.exc)
            err("CRASH", f"{action[0]}() raises {en} {getattr(ar.exc, 'fields', {}).get('args', '')} at {ar.site}", ar.site)
            return g, V
        name = action[0]
        L = {"in_iter": False}
        iter_api = "on_iteration" if auto else "execute"
        self.timing(action, events, world, err, not g["was_running"])
        for ev in events:
            k = ev[0]
            if k == "call":
                _, api, args, ctx, depth, owner = ev
                if ctx == "client" and api != iter_api:
                    plain = api == "engage" and not any(a not in (None, False) for a in args)
                    if not plain:
                        g["cs_prev"] = None
                if api == "engage" and ctx == "client":
                    g["eng"] = True
                if api in ("done", "on_disable") and ctx == "client":
                    g["eng"] = False
                    g["contra"] = False
                    if auto:
                        g["armed"] = False
                if api == "on_enable" and ctx == "client" and auto:
                    g["enabled_once"] = True
                    g["armed"] = True
                    g["was_running"] = False
                if api == "next_state":
                    tgt = args[0] if args else None
                    tgt = tgt.fields.get("name") if isinstance(tgt, Obj) else tgt
                    if L["in_iter"]:
                        if ctx == "engine" and L["timeout_pending"] and g["fresh"] is not None:
                            err("C02.M1", f"state '{g['fresh']}' was entered but left by expiry before it ran once (engine next_state('{tgt}') after a time comparison came out true)")
                        if ctx == "engine":
                            L["timeout_pending"] = False  # the expiry has been acted upon
                        if ctx == "engine" and L["engine_done"] and tgt == self.first:
                            L["cycled"] = True
                            if auto:
                                err("C13.M3", "AutonomousStateMachine cycled back to its first state on its own after done()")
                    g["interv"] = True
                    g["fresh"] = tgt
                if api == "done":
                    if L["in_iter"] and ctx == "engine" and L["timeout_pending"] and g["fresh"] is not None:
                        err("C02.M1", f"state '{g['fresh']}' was entered but the machine finished by expiry before it ran once")
                    if L["in_iter"] and ctx == "engine":
                        L["timeout_pending"] = False
                    g["interv"] = True
                    g["fresh"] = None
                    g["was_running"] = False
                    if L["in_iter"]:
                        L["done_called"] = True
                        if L["last_run_regular"]:
                            L["done_after"] = True
                        if ctx == "engine":
                            L["engine_done"] = True
                            if L["eng0"] and not L["any_cmp_true"] and not L.get("statefn_done") and not L.get("contra") and not auto:
                                err("C04.M6", "the machine stopped itself (engine done()) in an iteration for which engage() was called and in which no state expired: there is no cause of stopping")
                if api == "next_state_now" and ctx == "statefn" and L["in_iter"]:
                    L["nows"] += 1
                    if L.get("statefn_done") and auto:
                        L["contra"] = True  # (autonomous machine only: done() withdraws its engage request for good)
                if api == "done" and ctx == "statefn" and L["in_iter"]:
                    L["statefn_done"] = True
                if api == iter_api and ctx == "client":
                    if auto and g["armed"]:
                        g["eng"] = True
                    L = {"in_iter": True, "runs": 0, "nows": 0, "last_run_regular": False, "done_after": False, "timeout_pending": False,
                         "any_cmp_true": False, "begin_idle": (not g["was_running"]) and not g["eng"], "cycled": False, "engine_done": False,
                         "need_zero": not g["was_running"], "armed_at_start": g["armed"], "was_running0": g["was_running"], "done_called": False,
                         "eng0": g["eng"]}
            elif k == "cmp_true":
                if L["in_iter"]:
                    L["timeout_pending"] = True
                    L["any_cmp_true"] = True
            elif k == "run":
                _, S, tm, stm, ic, depth, site = ev
                if S not in self.specs or not L["in_iter"]:
                    err("CRASH", f"state function '{S}' called outside an iteration", site)
                    continue
                if self.regular(S) and not g["eng"]:
                    err("C01.M1", f"regular state '{S}' ran in an iteration without engage()", site)
                if not self.is_default(S) and L["begin_idle"]:
                    err("C01.M3", f"state '{S}' ran although the machine had stopped and engage() was not called since", site)
                if auto and not L["armed_at_start"]:
                    err("C13.M2", f"state '{S}' ran after the autonomous machine had finished / before on_enable()", site)
                exp_ic = (g["last"] != S) or g["interv"]
                if ic is not ABSENT and ic is not exp_ic:
                    err("C03.M1", f"state '{S}' called with initial_call={ic!r}, expected {exp_ic} (last state run: {g['last']}, transition/done since: {g['interv']})", site)
                if not self.is_default(S):
                    if L["need_zero"] and not L["cycled"] and tm is not ABSENT:
                        if not (isinstance(tm, int) and not isinstance(tm, bool) and tm == 0):
                            err("C04.M4", f"first call of '{S}' after the machine (re)started received tm={tm!r}, expected exactly 0", site)
                    L["need_zero"] = False
                    if L["runs"] == 0 and g["cs_prev"] is not None and not L["any_cmp_true"] and S != g["cs_prev"]:
                        err("C04.M5", f"current_state named '{g['cs_prev']}' after the previous iteration but '{S}' ran next", site)
                L["runs"] += 1
                L["statefn_done"] = False
                g["last"] = S
                g["interv"] = False
                g["fresh"] = None
                L["last_run_regular"] = not self.is_default(S)
                L["done_after"] = False
            elif k == "ret" and ((not auto and ev[1] == "execute" and ev[2] == 1) or (auto and ev[1] == "on_iteration")):
                if L["in_iter"]:
                    self.end_iteration(g, L, obs, err, auto)
                L = {"in_iter": False}
        if name in ("done", "on_disable") and obs is not None:
            if obs["is_executing"] is not False or obs["current_state"] != "":
                err("C04.M3", f"after {name}(): is_executing={obs['is_executing']!r} current_state={obs['current_state']!r}")
        return g, V

    def end_iteration(self, g, L, obs, err, auto):
        if L.get("contra") or g["contra"]:
            # a state function called done() and then next_state_now() in the same call: what the getters and the
            # run count should be is not specified; what is: the machine has finished (C13: "from then on ...
            # is_executing stays False"), which the later iterations are held to by C13.M2 / C13.M3
            if obs["is_executing"] is not False:
                err("C13.M2", f"a state function called done() (and then next_state_now()), but is_executing={obs['is_executing']!r} after the iteration: the machine keeps running")
            g.update(was_running=False, cs_prev=None, eng=False, armed=False, contra=True)
            return
        if L["eng0"] and (not auto or L["armed_at_start"]):
            if L["runs"] != 1 + L["nows"] and not (auto and L["engine_done"] and L["runs"] == 0):
                # (an autonomous machine whose last state expires finishes in that iteration without running anything)
                err("C01.M2" if not auto else "C13.M1", f"engaged iteration ran {L['runs']} state function(s), expected {1 + L['nows']} (1 + {L['nows']} next_state_now)")
        running = L["last_run_regular"] and not L["done_after"]
        ie, cs = obs["is_executing"], obs["current_state"]
        if running and not (ie is True and isinstance(cs, str) and cs != ""):
            err("C04.M1", f"a regular state ran and done() did not follow, but is_executing={ie!r} current_state={cs!r}")
        if not running and (ie is not False or cs != ""):
            err("C04.M2", f"no regular state is running after the iteration, but is_executing={ie!r} current_state={cs!r}")
        if not running and L["was_running0"] and not L["done_called"]:
            err("C04.M2", "the machine stopped running regular states without done() being called")
        g["was_running"] = running
        g["cs_prev"] = cs if running else None
        g["eng"] = False
        if auto and not running:
            g["armed"] = False



def _lin(v):
    try:
        return Lin.of(v)
    except TypeError:
        return None


class TimingMonitor:
    """C02.T1-T5 / C03.T1-T2 on every transition the closure explores.  Between client calls every
    stored number is an opaque per-slot symbol, so each path is checked for *all* pre-state
    values at once; roles (machine start, per-state entry time and expiry) are inferred from
    the observable sinks (arguments of the state functions, the strict comparison that
    precedes an engine transition), not from field names."""

    def __init__(self, specs, base):
        self.specs = {s.name: s for s in specs}
        self.base = base
        self.role_f0 = None
        self.role_f1 = {}
        self.role_f2 = {}
        self.n_checked = 0

    def __call__(self, action, events, world, err, need_zero0):
        # tm is compared with the machine start as it is stored at the END of the call: state calls made before the
        # machine was stopped (done()) inside this very call belong to the run that ended and are not compared
        stops = [j for j, ev in enumerate(events) if ev[0] == "call" and ev[1] == "done"]
        last_stop = stops[-1] if stops else -1
        err_ = err

        def err(rule, msg, site=None, _at=[None]):
            if rule == "C03.T1" and _at[0] is not None and _at[0] < last_stop and "received tm=" in msg:
                return
            err_(rule, msg, site)

        self._at = err.__defaults__[1]
        slots = numeric_slots(world)
        changed = {p for p, v in slots.items() if not (isinstance(v, Sym) and v.name in ("old:" + p, "forever:" + p))}
        iter_api = "on_iteration" if self.base != "StateMachine" else "execute"
        in_iter = False
        clocks = {}
        depth = 0
        last_lin = None
        cause = {}
        entries = {}
        waived = set()  # states entered in this transition whose records may legitimately be gone at its end
        restarted = need_zero0
        cycled = False
        engine_done = False
        first = [s.name for s in self.specs.values() if s.first][0]
        m = world["machine"]
        for j_, ev in enumerate(events):
            self._at[0] = j_
            k = ev[0]
            if k == "call":
                _, api, args, ctx, d, owner = ev
                if api == "execute":
                    depth = d
                    if d == 1:
                        in_iter = True
                if api == "next_state" and in_iter:
                    tgt = args[0] if args else None
                    tgt = tgt.fields.get("name") if isinstance(tgt, Obj) else tgt
                    # (re-entering a state discards what was recorded at its last entry: nothing to look for afterwards)
                    waived.add(tgt)
                    if ctx == "engine":
                        if last_lin is None:
                            err("C02.T1", f"the engine moved to state '{tgt}' in an iteration without a strict 'expiry < tm' comparison having come out true on that path")
                        cause[tgt] = ("expiry", last_lin) if last_lin is not None else ("request",)
                        if engine_done and tgt == first:
                            cycled = True
                    else:
                        cause[tgt] = ("request",)
                if api == "done" and in_iter:
                    waived.update(entries)  # a stopped machine need not keep the records of the run that ended
                    restarted = True  # stopped inside this iteration: a later request in it starts the machine (and its clock) again
                if api == "done" and in_iter and ctx == "engine":
                    engine_done = True
            elif k == "ret" and ev[1] == "execute":
                depth = ev[2] - 1
                if depth == 0:
                    in_iter = False
            elif k == "clock":
                clocks[ev[2]] = ev[1]  # the clock read of the execute() that is running at this depth now
            elif k == "cmp_true" and in_iter:
                last_lin = ev[2]
            elif k == "run" and in_iter:
                _, S, tm, stm, ic, d, site = ev
                if S not in self.specs:
                    continue
                if ic is not ABSENT and not isinstance(ic, bool):
                    err("C03.A4", f"state '{S}' received a non-boolean initial_call: {ic!r}", site)
                tmL = None if tm is ABSENT else (_lin(tm) if not isinstance(tm, bool) else "bad")
                stmL = None if stm is ABSENT else (_lin(stm) if not isinstance(stm, bool) else "bad")
                if tmL == "bad" or stmL == "bad" or (tm is not ABSENT and tmL is None) or (stm is not ABSENT and stmL is None):
                    err("C03.A4", f"state '{S}' received non-numeric tm/state_tm: tm={tm!r} state_tm={stm!r}", site)
                    continue
                self.n_checked += 1
                if tmL is None or stmL is None:
                    # the state does not declare both time parameters: check what it does declare
                    if stmL is not None and ic is True and cause.get(S, ("request",))[0] != "expiry" and not (self.specs[S].kind == "default" and last_lin is not None) and stmL != Lin(0):
                        err("C03.T2", f"state '{S}' received state_tm={stm!r} on its initial call after being entered by request; expected 0", site)
                    if stmL is not None and ic is True and cause.get(S, ("request",))[0] == "expiry" and stmL.add(cause[S][1]) != Lin(0):
                        err("C02.T2", f"state '{S}' entered by expiry received state_tm={stm!r}; expected tm minus the predecessor's expiry", site)
                    if tmL is not None and self.specs[S].kind != "default":
                        now = clocks.get(d)
                        if now is None or not any(p.count(".") == 2 and p.startswith("w.machine.") and "[" not in p and _lin(v) is not None and Lin.of(now).add(_lin(v), -1) == tmL for p, v in slots.items()):
                            err("C03.T1", f"state '{S}' received tm={tm!r}: not the time elapsed since a stored machine start instant", site)
                    if ic is True:
                        cause.pop(S, None)
                    continue
                start_abs = tmL.add(stmL, -1)
                is_default = self.specs[S].kind == "default"
                if ic is True:
                    c = cause.get(S, ("request",))
                    if c[0] == "expiry":
                        if stmL.add(c[1]) != Lin(0):  # state_tm == tm - expiry(predecessor) == -(expiry - tm)
                            err("C02.T2", f"state '{S}' entered by expiry of its predecessor received state_tm={stm!r}; expected tm minus the predecessor's expiry ({c[1].scale(-1)!r}), i.e. its clock must start at the predecessor's expiry", site)
                    elif is_default and last_lin is not None and stmL.add(last_lin) == Lin(0):
                        pass  # fallback to the default state in the iteration that noticed an expiry: clock from that expiry
                    else:
                        if stmL != Lin(0):
                            err("C03.T2", f"state '{S}' received state_tm={stm!r} on its initial call after being entered by request/engage/fallback; expected 0", site)
                    entries[S] = (start_abs, site)
                    waived.discard(S)
                    cause.pop(S, None)
                elif ic is False:
                    ok = False
                    sa = start_abs.simplify()
                    if isinstance(sa, Sym) and (sa.name.startswith("old:") or sa.name.startswith("forever:")):
                        slot = sa.name.split(":", 1)[1]
                        want = self.role_f1.get(S)
                        ok = want is None or slot in want
                    if not ok:
                        err("C03.T2", f"state '{S}' received state_tm={stm!r} with tm={tm!r} on a consecutive call; tm - state_tm must be the entry time recorded at its initial call", site)
                # machine time
                if not is_default:
                    now = clocks.get(d)
                    if now is None:
                        err("C03.T1", f"state '{S}' ran in an execute() that did not read the clock", site)
                    else:
                        cands = [p for p, v in slots.items() if p.count(".") == 2 and p.startswith("w.machine.") and "[" not in p and not p.split(".")[-1].startswith("$") and _lin(v) is not None and Lin.of(now).add(_lin(v), -1) == tmL]
                        if self.role_f0 is not None:
                            cands = [p for p in cands if p == self.role_f0]
                        if not cands:
                            err("C03.T1", f"state '{S}' received tm={tm!r}: not the time elapsed since a stored machine start instant (clock read {now!r})", site)
                        elif self.role_f0 is None and len(cands) == 1:
                            self.role_f0 = cands[0]
        # ---- post-state of entered states: entry time and expiry
        for S, (start_abs, site) in entries.items():
            if S in waived:
                continue
            f1 = [p for p in changed if _lin(slots[p]) == start_abs and not (p.count(".") == 2 and "[" not in p)]
            cell = m.fields.get("$tunable:" + S + "_duration")
            f2 = []
            for p in changed:
                v = _lin(slots[p])
                if v is None or (p.count(".") == 2 and "[" not in p):
                    continue
                diff = v.add(start_abs, -1)
                if cell is not None:
                    if diff == Lin.of(cell):
                        f2.append(p)
                else:
                    if diff.is_const() and diff.const >= FOREVER:
                        f2.append(p)
            if not f1:
                err("C02.T3", f"after the initial call of '{S}' no per-state record holds its entry time {start_abs.simplify()!r}", site)
            else:
                self.role_f1.setdefault(S, set()).update(f1)
            if not f2:
                want = "entry time + the current value of its duration tunable" if cell is not None else "entry time + a duration of at least 1e9 s (untimed state)"
                err("C02.T2" if cell is not None else "C01.O1", f"after the initial call of '{S}' (entry time {start_abs.simplify()!r}) no per-state record holds its expiry = {want}", site)
            else:
                self.role_f2.setdefault(S, set()).update(f2)
        # ---- state_tm >= 0: the machine clock is only restarted under states that are entered afresh
        if self.role_f0 in changed and action[0] in ("execute", "on_iteration"):
            # (the state that is still current when the iteration ends: the last one that ran)
            runs_ = [ev for ev in events if ev[0] == "run" and ev[1] in self.specs]
            for ev in runs_[-1:]:
                if self.specs[ev[1]].kind != "default" and ev[4] is False:
                    err("C02.T5", f"the machine start instant ({self.role_f0}) is re-based in an iteration that goes on running state '{ev[1]}' without entering it afresh: its entry time and expiry are in the old time base, so state_tm turns negative and the state outlasts its duration", ev[6])
                    break
        # ---- who may write
        for p in sorted(changed):
            owner = None
            for S in self.specs:
                if f"[{S}]" in p:
                    owner = S
            if owner is not None and owner not in entries and (p in self.role_f1.get(owner, ()) or p in self.role_f2.get(owner, ())):
                err("C02.T3", f"entry time / expiry of state '{owner}' ({p}) was rewritten by {action[0]}() without an initial call of that state")
            if p == self.role_f0 and not (restarted or cycled):
                err("C03.T1", f"the machine start instant ({p}) was rewritten by {action[0]}() although the machine neither (re)started nor cycled")


def run_closure(program, tier, base="StateMachine"):
    results = []
    for uname, specs, max_script, max_nest in universes(tier, base)[: int(__import__("os").environ.get("VERIF_MAXU", "99"))]:
        world, it0 = make_world(program, specs, base, configure)
        mon = SMMonitor(specs, base)
        r = close(
            program, world, dict(GHOST0), client_actions(specs, base), run_sm_action, mon,
            lambda: SMHooks(specs, max_script, max_nest), configure=configure, frozen_roots=("other",),
        )
        results.append((uname, specs, r))
    return results
