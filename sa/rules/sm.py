"""Closure set-up and monitors for magicbot.StateMachine (C01-C04) and AutonomousStateMachine (C13).

Monitors are the transition tables of DESIGN.md Appendix C; they only look at observable
events (state-function calls with their arguments, calls of the public API with the caller
context, time comparisons that came out true) and at the public getters.
"""
from __future__ import annotations

from ..closure import FOREVER, close
from ..interp import AbsRaise, Interp
from ..smworld import StateSpec, build_class, instantiate
from ..values import Ext, Obj, Sym

MODULE = "magicbot.state_machine"
API = {"engage", "done", "next_state", "next_state_now", "execute", "on_enable", "on_disable", "on_iteration"}


def universes(tier, base="StateMachine"):
    """(name, [StateSpec]) - the machine shapes of DESIGN.md 7 (shared set-up)."""
    out = []
    for first_mf in (False, True):
        for with_default in ((False, True) if base == "StateMachine" or tier == "thorough" else (False, True)):
            for kind in (("timed",) if tier == "quick" else ("timed", "state")):
                specs = [StateSpec("first", kind, first=True, must_finish=first_mf), StateSpec("reg", kind), StateSpec("mf", kind, must_finish=True)]
                if tier == "thorough":
                    specs += [StateSpec("reg2", kind), StateSpec("mf2", "timed", must_finish=True)]
                if with_default:
                    specs.append(StateSpec("dflt", "default", params=("tm", "state_tm", "initial_call")))
                name = f"{base}[{kind};first{'+mf' if first_mf else ''};{'default' if with_default else 'nodefault'}]"
                out.append((name, specs))
    return out


class SMHooks:
    """Collects the observable events of one client call and plays the in-state action scripts."""

    def __init__(self, specs, max_script=1, max_nest=1):
        self.specs = {s.name: s for s in specs}
        self.targets = [s.name for s in specs if s.kind != "default"]
        self.max_script = max_script
        self.max_nest = max_nest
        self.events = []
        self.origin = "client"
        self.stack = []
        self.exec_depth = 0
        self.world = None
        self.fn_depth = 0

    # -- API calls with caller context
    def on_enter(self, it, f, vals, node):
        if f.name in API and f.owner is not None and f.module.name == MODULE:
            ctx = self.origin
            self.stack.append((f, self.origin))
            self.origin = "engine"
            args = tuple(v for k, v in list(vals.items())[1:])
            if f.name == "execute":
                self.exec_depth += 1
            self.events.append(("call", f.name, args, ctx, self.exec_depth if f.name == "execute" else None, f.owner.name))
        else:
            self.stack.append((f, None))

    def on_exit(self, it, f, node):
        f0, saved = self.stack.pop()
        if saved is not None:
            self.origin = saved
            if f.name == "execute":
                self.events.append(("ret", "execute", self.exec_depth))
                self.exec_depth -= 1
            else:
                self.events.append(("ret", f.name, None))

    def on_decide(self, it, atom, val, node):
        if atom[0] == "lt0" and val:
            self.events.append(("cmp_true", it.site(node) if node is not None else None))

    def decide(self, it, atom, node):
        """C01.O1: a term at least FOREVER (1e9 s) away from the others never changes sign."""
        if atom[0] == "lt0":
            lin = atom[2]
            big = lin.const + sum(c * FOREVER for a, c in lin.terms.items() if isinstance(a, Sym) and a.tag == "forever")
            if big >= FOREVER // 2:
                return False
            if big <= -(FOREVER // 2):
                return True
        return None

    def resolve_lazy(self, it, v, node):
        c = it.choose(len(v.options), ("lazy", v.name))
        return v.options[c]

    # -- state functions
    def ext_call(self, it, fn, args, kwargs, node):
        meta = getattr(fn, "meta", None)
        if meta is None or fn.role != "userfn":
            return NotImplemented
        names = [p for p, _ in meta["params"]]
        vals = dict(zip(names, args))
        name = meta["name"]
        self.events.append(("run", name, vals.get("tm"), vals.get("state_tm"), vals.get("initial_call"), self.exec_depth, it.site(node)))
        spec = self.specs.get(name)
        machine = vals.get("self")
        if spec is None or spec.kind == "default" or not isinstance(machine, Obj):
            return None
        self.fn_depth += 1
        try:
            self.play_script(it, machine, node)
        finally:
            self.fn_depth -= 1
        return None

    def script_options(self):
        opts = [("none",)]
        for t in self.targets:
            opts.append(("next_state", t))
        if self.fn_depth <= self.max_nest:
            for t in self.targets:
                opts.append(("next_state_now", t))
        opts.append(("done",))
        return opts

    def play_script(self, it, machine, node):
        for step in range(self.max_script):
            opts = self.script_options()
            a = opts[it.choose(len(opts), ("script", step))]
            if a[0] == "none":
                return
            saved = self.origin
            self.origin = "statefn"
            try:
                self.events.append(("action", a))
                it.call(it.getattr(machine, a[0]), list(a[1:]), {}, node)
            finally:
                self.origin = saved
            if a[0] == "done":
                return


# ----------------------------------------------------------------------------------------
def sm_actions(specs, base):
    targets = [s.name for s in specs if s.kind != "default"]
    if base == "StateMachine":
        acts = [("engage",), ("engage", ("force", True))]
        for t in targets:
            acts.append(("engage", ("initial_state", t)))
            acts.append(("engage", ("initial_state", t), ("force", True)))
        acts += [("done",), ("on_disable",), ("on_enable",), ("execute",)]
    else:
        acts = [("on_enable",), ("on_iteration",), ("on_disable",), ("done",)]
    return acts


def run_sm_action(it: Interp, world, action):
    m = world["machine"]
    name = action[0]
    kwargs = {k: v for k, v in action[1:]}
    args = []
    if name == "on_iteration":
        args = [Sym("auto_tm", "num")]
    it.call(it.getattr(m, name), args, kwargs)
    return {"is_executing": it.getattr(m, "is_executing"), "current_state": it.getattr(m, "current_state")}


def make_world(program, specs, base, configure):
    it = Interp(program)
    configure(it)
    cls, wrappers = build_class(it, MODULE, base, specs)
    m = instantiate(it, cls)
    if base == "StateMachine" or True:
        cls.mutable = False  # nothing writes the class after construction (checked: class_write events)
    return {"machine": m}, it


def configure(it):
    it.record_ctor.add("tunable")
    it.tunable_cells = True


GHOST0 = {"eng": False, "last": None, "interv": True, "fresh": None, "was_running": False, "cs_prev": None, "armed": False}


class SMMonitor:
    """Appendix C of DESIGN.md, with the ghosts that are functions of others folded away:
    idle == not was_running and not eng;  a done() call (any caller) clears was_running;
    a client done()/on_disable() withdraws eng;  cs_prev is dropped (None) by any client call
    other than a plain engage()."""

    def __init__(self, specs, base):
        self.specs = {s.name: s for s in specs}
        self.base = base
        self.first = [s.name for s in specs if s.first][0]

    def regular(self, s):
        sp = self.specs[s]
        return sp.kind != "default" and not sp.must_finish

    def is_default(self, s):
        return self.specs[s].kind == "default"

    def __call__(self, g, action, events, obs, outcome, world):
        V = []
        auto = self.base != "StateMachine"

        def err(rule, msg, site=None):
            V.append((rule, msg, site))

        if isinstance(outcome, tuple) and outcome[0] == "raise":
            ar = outcome[1]
            en = ar.exc.cls.name if isinstance(ar.exc, Obj) else repr(ar.exc)
            err("CRASH", f"{action[0]}() raises {en} {getattr(ar.exc, 'fields', {}).get('args', '')} at {ar.site}", ar.site)
            return g, V
        name = action[0]
        L = {"in_iter": False}
        iter_api = "on_iteration" if auto else "execute"
        for ev in events:
            k = ev[0]
            if k == "call":
                _, api, args, ctx, depth, owner = ev
                if ctx == "client" and api != iter_api:
                    plain = api == "engage" and not any(a not in (None, False) for a in args)
                    if not plain:
                        g["cs_prev"] = None
                if api == "engage" and ctx == "client":
                    g["eng"] = True
                if api in ("done", "on_disable") and ctx == "client":
                    g["eng"] = False
                    if auto:
                        g["armed"] = False
                if api == "on_enable" and ctx == "client" and auto:
                    g["armed"] = True
                    g["was_running"] = False
                if api == "next_state":
                    tgt = args[0] if args else None
                    tgt = tgt.fields.get("name") if isinstance(tgt, Obj) else tgt
                    if L["in_iter"]:
                        if ctx == "engine" and L["timeout_pending"] and g["fresh"] is not None:
                            err("C02.M1", f"state '{g['fresh']}' was entered but left by expiry before it ran once (engine next_state('{tgt}') after a time comparison came out true)")
                        if ctx == "engine":
                            L["timeout_pending"] = False  # the expiry has been acted upon
                        if ctx == "engine" and L["engine_done"] and tgt == self.first:
                            L["cycled"] = True
                            if auto:
                                err("C13.M3", "AutonomousStateMachine cycled back to its first state on its own after done()")
                    g["interv"] = True
                    g["fresh"] = tgt
                if api == "done":
                    if L["in_iter"] and ctx == "engine" and L["timeout_pending"] and g["fresh"] is not None:
                        err("C02.M1", f"state '{g['fresh']}' was entered but the machine finished by expiry before it ran once")
                    if L["in_iter"] and ctx == "engine":
                        L["timeout_pending"] = False
                    g["interv"] = True
                    g["fresh"] = None
                    g["was_running"] = False
                    if L["in_iter"]:
                        L["done_called"] = True
                        if L["last_run_regular"]:
                            L["done_after"] = True
                        if ctx == "engine":
                            L["engine_done"] = True
                if api == "next_state_now" and ctx == "statefn" and L["in_iter"]:
                    L["nows"] += 1
                if api == iter_api and ctx == "client":
                    if auto and g["armed"]:
                        g["eng"] = True
                    L = {"in_iter": True, "runs": 0, "nows": 0, "last_run_regular": False, "done_after": False, "timeout_pending": False,
                         "any_cmp_true": False, "begin_idle": (not g["was_running"]) and not g["eng"], "cycled": False, "engine_done": False,
                         "need_zero": not g["was_running"], "armed_at_start": g["armed"], "was_running0": g["was_running"], "done_called": False,
                         "eng0": g["eng"]}
            elif k == "cmp_true":
                if L["in_iter"]:
                    L["timeout_pending"] = True
                    L["any_cmp_true"] = True
            elif k == "run":
                _, S, tm, stm, ic, depth, site = ev
                if S not in self.specs or not L["in_iter"]:
                    err("CRASH", f"state function '{S}' called outside an iteration", site)
                    continue
                if self.regular(S) and not g["eng"]:
                    err("C01.M1", f"regular state '{S}' ran in an iteration without engage()", site)
                if not self.is_default(S) and L["begin_idle"]:
                    err("C01.M3", f"state '{S}' ran although the machine had stopped and engage() was not called since", site)
                if auto and not L["armed_at_start"]:
                    err("C13.M2", f"state '{S}' ran after the autonomous machine had finished / before on_enable()", site)
                exp_ic = (g["last"] != S) or g["interv"]
                if ic is not exp_ic:
                    err("C03.M1", f"state '{S}' called with initial_call={ic!r}, expected {exp_ic} (last state run: {g['last']}, transition/done since: {g['interv']})", site)
                if not self.is_default(S):
                    if L["need_zero"] and not L["cycled"]:
                        if not (isinstance(tm, int) and not isinstance(tm, bool) and tm == 0):
                            err("C04.M4", f"first call of '{S}' after the machine (re)started received tm={tm!r}, expected exactly 0", site)
                    L["need_zero"] = False
                    if L["runs"] == 0 and g["cs_prev"] is not None and not L["any_cmp_true"] and S != g["cs_prev"]:
                        err("C04.M5", f"current_state named '{g['cs_prev']}' after the previous iteration but '{S}' ran next", site)
                L["runs"] += 1
                g["last"] = S
                g["interv"] = False
                g["fresh"] = None
                L["last_run_regular"] = not self.is_default(S)
                L["done_after"] = False
            elif k == "ret" and ((not auto and ev[1] == "execute" and ev[2] == 1) or (auto and ev[1] == "on_iteration")):
                if L["in_iter"]:
                    self.end_iteration(g, L, obs, err, auto)
                L = {"in_iter": False}
        if name in ("done", "on_disable") and obs is not None:
            if obs["is_executing"] is not False or obs["current_state"] != "":
                err("C04.M3", f"after {name}(): is_executing={obs['is_executing']!r} current_state={obs['current_state']!r}")
        return g, V

    def end_iteration(self, g, L, obs, err, auto):
        if L["eng0"] and (not auto or L["armed_at_start"]):
            if L["runs"] != 1 + L["nows"]:
                err("C01.M2" if not auto else "C13.M1", f"engaged iteration ran {L['runs']} state function(s), expected {1 + L['nows']} (1 + {L['nows']} next_state_now)")
        running = L["last_run_regular"] and not L["done_after"]
        ie, cs = obs["is_executing"], obs["current_state"]
        if running and not (ie is True and isinstance(cs, str) and cs != ""):
            err("C04.M1", f"a regular state ran and done() did not follow, but is_executing={ie!r} current_state={cs!r}")
        if not running and (ie is not False or cs != ""):
            err("C04.M2", f"no regular state is running after the iteration, but is_executing={ie!r} current_state={cs!r}")
        if not running and L["was_running0"] and not L["done_called"]:
            err("C04.M2", "the machine stopped running regular states without done() being called")
        g["was_running"] = running
        g["cs_prev"] = cs if running else None
        g["eng"] = False
        if auto and not running:
            g["armed"] = False


def run_closure(program, tier, base="StateMachine"):
    results = []
    max_script = 1 if tier == "quick" else 2
    max_nest = 1 if tier == "quick" else 2
    for uname, specs in universes(tier, base)[: int(__import__("os").environ.get("VERIF_MAXU", "99"))]:
        world, it0 = make_world(program, specs, base, configure)
        mon = SMMonitor(specs, base)
        acts = sm_actions(specs, base)
        r = close(
            program, world, dict(GHOST0), lambda w, g: acts, run_sm_action, mon,
            lambda: SMHooks(specs, max_script, max_nest), configure=configure,
        )
        results.append((uname, specs, r))
    return results
