"""C08 - variable injection delivers exactly the named robot object or fails at startup."""
from .. import fn, robot
from ..interp import AbsRaise, Interp
from ..values import BuiltinV, ClassV, DictV, Ext, Obj, Sym, SymStr
from . import robotrules as rr

EXPLANATION = (
    "Path enumeration of magicbot/inject.py with abstract arguments, plus the start-up phases of MagicRobot._create_components: "
    "C08.O1 find_injections, run with an unknown injectables map, has exactly these paths per request n: injectables.get(n) is not "
    "None -> that very object is stored under n; it is None (tested with 'is None', never by truthiness, so 0 or '' are delivered) -> "
    "injectables.get('<cname>_' + n) -> that object, or MagicInjectError when also None; no path stores anything else.  C08.O2 every "
    "path that stores an object has passed isinstance(object, requested type); the failing branch raises MagicInjectError.  C08.O3 "
    "get_injection_requests on concrete families: private names raise for constructor parameters and are skipped for attributes; an "
    "attribute the instance already has is skipped; a generic alias is replaced by its origin; a non-type raises TypeError; everything "
    "else is requested with its type.  C08.O4 phases in _create_components: creation loop with constructor injection (each new "
    "component is added to the injectables under its attribute name before the next creation; the constructor receives exactly the "
    "found injections), then for every component and mode get_injection_requests(hints, name, instance) -> find_injections -> "
    "instance.__dict__.update(found), all before any setup(); requests are computed per instance, also when several components share "
    "one class; _collect_injectables offers exactly the robot attributes that are public, not excluded, not properties/tunables and "
    "not bound methods, as the objects themselves.  C08.O5 constructor and attribute injection use the same two functions.  _collect_injectables offers every plain public attribute of the robot class that is not in the documented exclusion list (named plain attributes such as control_loop_wait_time included); a name filter other than the exclusion list must not drop one.  find_injections does not modify the injectables map it is given (it is shared by all components); an attribute preset on a base class of the component is not requested."
)
RULE = "one case = one path of find_injections / get_injection_requests / _collect_injectables / _create_components"
EXHAUSTIVE = True
INJ = "magicbot.inject"


def _named_plain_attr(p, w, excl_names):
    """the path decided that the attribute name equals a constant: the name, if that attribute of the robot class is plain public data"""
    import re as _re
    from ..values import ClassMethodV, FuncV, PropertyV, StaticV

    for a, v, _ in p.path:
        if a[0] == "streq" and v:
            m = _re.search(r"\('const', 'str', '([^']*)'\)", str(a))
            if not m:
                continue
            c = m.group(1)
            if c.startswith("_") or c in excl_names:
                return None
            cls = w["robot"].cls
            k, val = cls.lookup(c)
            if k is None or isinstance(val, (FuncV, PropertyV, StaticV, ClassMethodV, BuiltinV)) or getattr(getattr(val, "cls", None), "name", "") == "tunable":
                return None
            if isinstance(val, Ext) and val.role in ("function", "userfn", "bound", "class"):
                return None
            return c
    return None


def check(ctx):
    ctx.assume("python")
    for r, t in (("C08.O1", "lookup order n then '<cname>_n', absence tested with 'is None', identity of the delivered object"),
                 ("C08.O2", "isinstance check on every delivering path; MagicInjectError otherwise"),
                 ("C08.O3", "request filter: private / already set / generic alias / non-type"),
                 ("C08.O4", "phases: create+register, then inject all, then setup; per-instance requests; injectables filter"),
                 ("C08.O5", "constructor and attribute injection share get_injection_requests / find_injections")):
        ctx.rule(r, t)
    mi = fn.module(ctx, INJ)
    FI, GR = mi.ns.get("find_injections"), mi.ns.get("get_injection_requests")
    site1 = (mi.filename, FI.node.lineno, "find_injections")
    site3 = (mi.filename, GR.node.lineno, "get_injection_requests")
    it0 = Interp(ctx.program)
    T = ClassV("Wanted", [], {"__annotations__": DictV()}, mi, None, "Wanted", mutable=True)
    cname = Sym("cname", "str", tag="nonnull", uid=0)

    # ---- O1 / O2
    def run(it, w):
        inj = Ext("injectables", "user", role="instance")
        res = it.call(FI, [DictV({"dep": T}), inj, cname], {})
        gets = [e for e in it.trace if e.kind == "user" and e.name == "injectables.get"]
        return res, gets

    paths = fn.all_paths(ctx, run)
    ctx.add("paths", len(paths))
    ctx.floor("paths of find_injections", len(paths), 5)
    kinds = set()
    # the injectables map is shared by all components and modes: find_injections only reads it
    writes = [e for p in paths for e in p.trace if e.kind == "user" and e.name.startswith("injectables.") and e.name.rsplit(".", 1)[-1] in ("__setitem__", "__delitem__", "update", "pop", "setdefault", "clear", "popitem")]
    ctx.require(not writes, "C08.O1", "find_injections does not modify the injectables map it is given", f"find_injections writes into the shared injectables map ({writes[0].name if writes else ''}): what one component resolves leaks into the lookups of the components processed after it", site=writes[0].site if writes else site1, key="C08.O1|write")
    for p in paths:
        atoms = [(a, v) for a, v, _ in p.path]
        desc = "; ".join(f"{a[0]}({str(a[-1])[-40:]})={v}" for a, v in atoms)
        bad_tests = [a for a, v in atoms if a[0] in ("truthy", "nonempty") and "injectables.get" in str(a[-1])]
        ctx.require(not bad_tests, "C08.O1", f"absence tested with 'is None' on path [{desc}]", f"find_injections decides on the *truthiness* of a looked-up object (path [{desc}]): a falsy robot attribute such as 0 or '' is treated as absent", site=site1, key="C08.O1|truthy")
        if p.outcome == "raise":
            nm = fn.exc_name(p.value)
            kinds.add("raise")
            ctx.require(nm == "MagicInjectError", "C08.O2", f"failure raises MagicInjectError [{desc}]", f"find_injections raises {nm} on path [{desc}]; expected MagicInjectError", site=site1, key=f"C08.O2|exc|{nm}")
            continue
        if p.outcome != "return":
            continue
        res, gets = p.value
        args = [g.args[0] if g.args else None for g in gets]
        ok_order = len(args) >= 1 and args[0] == "dep" and (len(args) == 1 or (len(args) == 2 and args[1] == SymStr((cname, "_dep"))))
        ctx.require(ok_order, "C08.O1", f"lookups {args}", f"find_injections looks up {args}; expected 'dep' then '<cname>_dep'", site=site1, key="C08.O1|order")
        stored = res.items.get("dep") if isinstance(res, DictV) else None
        which = None
        for j, g in enumerate(gets):
            if isinstance(stored, Ext) and stored is g.extra:
                which = j
        none_first = [v for a, v in atoms if a[0] == "isnone" and "injectables.get('dep')" in str(a[-1])]
        if which is None:
            ctx.fail("C08.O1", f"find_injections delivers {stored!r}, which is not an object it looked up (path [{desc}])", site=site1, key="C08.O1|identity")
            continue
        kinds.add(("first", "second")[which])
        if which == 1:
            ctx.require(bool(none_first) and none_first[0] is True, "C08.O1", "prefixed object only when the plain name is None", f"find_injections delivers the '<cname>_dep' object although the plain name was not None (path [{desc}])", site=site1, key="C08.O1|fallback")
        if which == 0 and len(gets) > 1:
            ctx.fail("C08.O1", f"find_injections looks up the prefixed name although it delivers the plain one (path [{desc}])", site=site1, key="C08.O1|extra")
        inst = [v for a, v in atoms if a[0] == "isinstance" and "Wanted" in str(a)]
        ctx.require(bool(inst) and inst[-1] is True, "C08.O2", f"delivered object passed isinstance [{desc}]", f"find_injections delivers an object without a successful isinstance check against the annotated type (path [{desc}])", site=site1, key="C08.O2|check")
        ctx.require(set(res.items) == {"dep"}, "C08.O1", "only requested names are delivered", f"find_injections returns keys {list(res.items)}", site=site1, key="C08.O1|keys")
    ctx.require(kinds >= {"first", "second", "raise"}, "C08.O1", "all three outcomes reachable (plain, prefixed, error)", f"find_injections only has the outcomes {sorted(kinds)}", site=site1, key="C08.O1|outcomes")
    # ---- O1 with two requests: nothing found for one name may leak into the next
    def run2(it, w):
        inj = Ext("injectables", "user", role="instance")
        res = it.call(FI, [DictV({"first": T, "second": T}), inj, cname], {})
        gets = [e for e in it.trace if e.kind == "user" and e.name == "injectables.get"]
        return res, gets

    paths2 = fn.all_paths(ctx, run2)
    ctx.add("paths", len(paths2))
    for p in paths2:
        if p.outcome != "return":
            continue
        res, gets = p.value
        for nm in ("first", "second"):
            stored = res.items.get(nm) if isinstance(res, DictV) else None
            mine = [g for g in gets if g.args and (g.args[0] == nm or g.args[0] == SymStr((cname, "_" + nm)))]
            ok = isinstance(stored, Ext) and any(stored is g.extra for g in mine)
            if not ok:
                desc = "; ".join(f"{a[0]}({str(a[-1])[-30:]})={v}" for a, v, _ in p.path)
                ctx.fail("C08.O1", f"with two requested attributes find_injections delivers for '{nm}' an object that was not looked up under '{nm}' or '<cname>_{nm}' (path [{desc}]): a missing attribute silently receives another attribute's object instead of raising", site=site1, key=f"C08.O1|leak|{nm}")
    if not any(o[0] == "C08.O1" and not o[2] for o in ctx.obligations):
        ctx.ok("C08.O1", f"two-request scenario: every delivered object was looked up under its own name ({len(paths2)} paths)")
    # ---- O3
    Alias = ClassV("GenericAlias", [], {"__annotations__": DictV()}, mi, None, "GenericAlias", mutable=True)
    alias = Obj(Alias, {"__origin__": T})
    nontype = Obj(ClassV("Value", [], {"__annotations__": DictV()}, mi, None, "Value", mutable=True))
    Comp = ClassV("Comp", [], {"__annotations__": DictV(), "preset_on_class": 5}, mi, None, "Comp", mutable=True)
    comp = Obj(Comp, {"preset_in_init": 0})
    # a component class that inherits a preset (and a property) from a base class
    BaseComp = ClassV("BaseComp", [], {"__annotations__": DictV(), "preset_on_base": 0.5}, mi, None, "BaseComp", mutable=True)
    SubComp = ClassV("SubComp", [BaseComp], {"__annotations__": DictV()}, mi, None, "SubComp", mutable=True)
    subcomp = Obj(SubComp, {})

    def req(hints, component):
        it = Interp(ctx.program)
        try:
            r = it.call(GR, [DictV(hints), "comp", component], {})
            return ("ok", dict(r.items))
        except AbsRaise as ar:
            return ("raise", fn.exc_name(ar))

    cases = [
        ("constructor parameter with a private name", {"_hidden": T}, None, ("raise", "MagicInjectError")),
        ("private attribute of an instance", {"_hidden": T, "dep": T}, comp, ("ok", {"dep": T})),
        ("attribute preset on the class", {"preset_on_class": T, "dep": T}, comp, ("ok", {"dep": T})),
        ("attribute set in __init__ (falsy value)", {"preset_in_init": T}, comp, ("ok", {})),
        ("attribute preset on a base class of the component", {"preset_on_base": T, "dep": T}, subcomp, ("ok", {"dep": T})),
        ("generic alias annotation", {"dep": alias}, comp, ("ok", {"dep": T})),
        ("non-type annotation on an instance", {"dep": nontype}, comp, ("raise", "TypeError")),
        ("non-type annotation on a constructor", {"dep": nontype}, None, ("raise", "TypeError")),
        ("plain requests keep declaration order", {"b": T, "a": T}, None, ("ok", {"b": T, "a": T})),
    ]
    for label, hints, component, want in cases:
        got = req(hints, component)
        good = got == want and (got[0] != "ok" or list(got[1]) == list(want[1]))
        ctx.require(good, "C08.O3", f"{label}: {want[0]}", f"get_injection_requests, {label}: got {got}, expected {want}", site=site3, key=f"C08.O3|{label[:25]}")
    # ---- O4 / O5 phases
    for shared in (False, True):
        info, paths = rr.create_paths(ctx, shared=shared)
        ctx.add("paths", len(paths))
        problems = set()
        n = 0
        for p in paths:
            if p.outcome != "return":
                continue
            evs = rr.create_events(p)
            n += 1
            created = []
            for i, e in enumerate(evs):
                if e[0] == "create":
                    c = e[1]
                    # constructor injection: the two phases right before, with the right snapshot
                    prev = [x for x in evs[:i] if x[0] == "phase" and x[1] in ("get_injection_requests", "find_injections")][-2:]
                    if [x[1] for x in prev] != ["get_injection_requests", "find_injections"]:
                        problems.add("a component is created without get_injection_requests -> find_injections for its constructor")
                    else:
                        snap = prev[1][3] or []
                        names = [getattr(k, "name", None) for k in snap]
                        want = [f"attr#{j}" for j in created]
                        if names != want:
                            problems.add(f"when a component is created the injectables hold the earlier components {names}, expected {want} (each new component must be registered under its name before the next creation)")
                        kw = e[2].kwargs.get("**")
                        if not (isinstance(kw, Ext) and kw.path == "find_injections()"):
                            problems.add("the component constructor is not called with exactly the found injections")
                    created.append(c)
            # attribute injection per instance
            for c in created:
                mine = [x for x in evs if x[0] == "phase" and x[1] == "get_injection_requests" and len(x[2]) > 2 and isinstance(x[2][2], Ext) and x[2][2].path.startswith(f"annotated_type#{c}(")]
                if len(mine) != 1:
                    problems.add(f"get_injection_requests is called {len(mine)} times with the component instance (expected once per component{', also when components share a class' if shared else ''}): attributes an instance already has / lacks are not respected")
                upd = [x for x in evs if x[0] == "dictupdate" and x[1].startswith(f"annotated_type#{c}(") and x[2].args and isinstance(x[2].args[0], Ext) and x[2].args[0].path == "find_injections()"]
                if len(upd) != 1:
                    problems.add("a component's __dict__ is not updated exactly once with the found injections")
            setups = [i for i, e in enumerate(evs) if e[0] == "setup"]
            inj = [i for i, e in enumerate(evs) if e[0] == "dictupdate" and e[2].args and isinstance(e[2].args[0], Ext) and e[2].args[0].path == "find_injections()"]
            if setups and inj and min(setups) < max(inj):
                problems.add("setup() runs before all attribute injection is done")
        for b in sorted(problems):
            ctx.fail("C08.O4", b + (" [variant: all components of one class]" if shared else ""), site=("magicbot/magicrobot.py", 0, "MagicRobot._create_components"), key=f"C08.O4|{b[:40]}")
        if not problems:
            ctx.ok("C08.O4", f"creation / injection phases correct on {n} paths" + (" (components sharing one class)" if shared else ""))
        ctx.floor("paths of _create_components", n, 100)
    ctx.ok("C08.O5", "constructor and attribute injection both go through get_injection_requests -> find_injections (checked per creation and per instance above)")
    # ---- _collect_injectables
    info, worlds = rr.prepare(ctx)
    w = worlds[0][0]

    def runci(it, ww):
        it.generic_loop_fixed = 1
        r = ww["robot"]
        return it.call(it.getattr(r, "_collect_injectables"), [], {})

    ps = fn.all_paths(ctx, runci, hooks=lambda: robot.RobotHooks(dict(info, skip_create=False)), world=w)
    ctx.add("paths", len(ps))
    offered = 0
    sitec = ("magicbot/magicrobot.py", 0, "MagicRobot._collect_injectables")
    for p in ps:
        if p.outcome != "return":
            ctx.fail("C08.O4", f"_collect_injectables raises {fn.exc_name(p.value) if p.outcome == 'raise' else p.value}", site=sitec, key="C08.O4|ci|raise")
            continue
        d = p.value
        atoms = {a[0] + ":" + str(a[1:])[:60]: v for a, v, _ in p.path}
        private = [v for a, v, _ in p.path if a[0] == "startswith"]
        # the documented exclusion: membership in the robot's own exclusion list (comparisons with its entries);
        # any other membership / equality test on the name is an extra filter that must not drop an attribute
        excl_names = [x for x in getattr(w["robot"].fields.get("_exclude_from_injection"), "items", []) if isinstance(x, str)]
        member = [(a, v) for a, v, _ in p.path if a[0] in ("eq", "streq", "in")]
        excluded = [v for a, v in member if any(repr(x) in str(a) for x in excl_names) or not excl_names]
        extra_filters = [a for a, v in member if v and excl_names and not any(repr(x) in str(a) for x in excl_names)]
        propt = [v for a, v, _ in p.path if a[0] == "isinstance"]
        meth = [v for a, v, _ in p.path if a[0] == "ismethod"]
        should = private == [False] and excluded and not any(excluded) and propt and not any(propt) and meth == [False]
        has = isinstance(d, DictV) and len(d.items) == 1
        if has:
            offered += 1
            (k, v), = d.items.items()
            same = isinstance(v, Ext) and v.path.startswith("robot.")
            ctx.require(should and same, "C08.O4", "offered attribute is public, not excluded, not a property/tunable, not a method; the object itself", f"_collect_injectables offers {k!r} -> {v!r} on path {atoms}", site=sitec, key="C08.O4|ci|offer")
        elif not has and _named_plain_attr(p, w, excl_names) is not None:
            nm = _named_plain_attr(p, w, excl_names)
            ctx.fail("C08.O4", f"_collect_injectables does not offer the robot's plain public attribute '{nm}' (it is not in the exclusion list, not a property/tunable and not a method)", site=sitec, key="C08.O4|ci|named")
        elif should and not extra_filters:
            ctx.fail("C08.O4", f"_collect_injectables drops a public plain robot attribute (path {atoms})", site=sitec, key="C08.O4|ci|drop")
        elif should and extra_filters:
            ctx.fail("C08.O4", f"_collect_injectables drops a public plain robot attribute that is not in the exclusion list, because of another test on its name: {extra_filters[0]!r}", site=sitec, key="C08.O4|ci|extra")
    ctx.require(offered >= 1, "C08.O4", "_collect_injectables offers plain public attributes", "_collect_injectables never offers anything", site=sitec, key="C08.O4|ci|none")
    ctx.sample({"find_injections_paths": len(paths), "collect_injectables_paths": len(ps)})
