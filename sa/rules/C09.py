"""C09 - tunables are per-instance NetworkTables values at the documented key."""
from fractions import Fraction as F

from .. import fn
from ..interp import AbsRaise, Interp
from ..values import ClassV, DictV, Ext, ListV, Obj, Sym, SymStr
from . import robotrules as rr

EXPLANATION = (
    "Abstract interpretation of magicbot/magic_tunable.py (the real tunable.__init__, __set_name__, __get__, __set__, setup_tunables "
    "and the type tables) on abstract owner classes with a symbolic owner name: C09.O1 the effective NetworkTables key of every "
    "tunable, reconstructed from the chain of table/topic calls, is '/<prefix>/<name>[/<subtable>]/<attr>' resp. '/<name>...' when the "
    "prefix is None, exactly one topic per attribute name (the attribute the class actually resolves to, also when a subclass "
    "re-declares a base-class tunable); the three call sites in MagicRobot pass (component, its robot attribute name, 'components'), "
    "(mode, MODE_NAME, 'autonomous'), (robot, 'robot', None).  C09.O2 the topic class follows the default's exact type (bool is not "
    "captured by int) and the array table for homogeneous sequences.  C09.O3 writeDefault=True calls set(default), False calls "
    "setDefault(default), on the entry obtained from that topic with that default.  C09.O4 the tunable->entry map is a fresh object "
    "per setup_tunables call stored on the instance; nothing is written to the descriptor or the class during binding or access.  "
    "C09.O5 instance reads return instance-map[descriptor].get(), writes call .set(value) on the same entry, class access returns "
    "the descriptor.  A tunable whose annotation differs from the type of its default (kp: float = tunable(0)) is published with the topic of the resolved hint; the raw __annotations__ hold source text, as under postponed evaluation of annotations."
)
RULE = "one obligation per (owner kind, tunable attribute, rule); keys and values symbolic"
EXHAUSTIVE = True
MT = "magicbot.magic_tunable"
SCALAR = {"bool": "Boolean", "int": "Integer", "float": "Double", "str": "String", "bytes": "Raw"}


def chain(ext):
    """[(method, args)] from the root to this handle, e.g. [('getDefault', ()), ('getTopic', ('/a/b',)), ...]"""
    out = []
    node = ext
    while isinstance(node, Ext):
        if node.callargs is not None and isinstance(node.parent, Ext):
            m = node.parent.path.rsplit(".", 1)[-1].split("(")[0]
            args = node.callargs[0]
            out.append((m, args))
            if m.endswith("Topic") and m != "getTopic" and args and isinstance(args[0], Ext):
                node = args[0]  # XTopic(<generic topic>): go on through the wrapped topic
            else:
                node = node.parent.parent
        else:
            node = node.parent
    return list(reversed(out))


def effective_key(ch):
    parts = []
    typed = False
    for m, args in ch:
        if m.endswith("Topic") and m != "getTopic":
            typed = True
        if m in ("getTable", "getSubTable", "getTopic") and args:
            parts.append(args[0])
        elif m == "getEntry" and args and not typed:
            parts.append(args[0])
    from ..values import str_concat

    key = ""
    for i, p in enumerate(parts):
        if i and not (isinstance(key, str) and key.endswith("/")):
            s = p if isinstance(p, str) else None
            if not (s is not None and s.startswith("/")):
                key = str_concat(key, "/")
        key = str_concat(key, p)
    return key


class Hooks:
    def __init__(self):
        self.events = []
        self.writes = []

    def ext_call(self, it, fn_, args, kwargs, node):
        if fn_.path == "typing.get_type_hints":
            # resolved annotations of the class (base classes first); the raw __annotations__ hold the source text, as
            # they do under `from __future__ import annotations`
            out = {}
            owner = args[0] if args else None
            if isinstance(owner, ClassV):
                for c in reversed(owner.mro):
                    ann = c.ns.get("__annotations__")
                    for k_, v_ in (ann.items.items() if isinstance(ann, DictV) else ()):
                        if isinstance(v_, str) and v_ in it.builtins:
                            out[k_] = it.builtins[v_]
            return DictV(out)
        return NotImplemented

    def on_setattr(self, it, obj, name, v, node):
        if isinstance(obj, Obj) and obj.cls.name == "tunable" and it.frames and it.frames[-1].site_fn not in ("tunable.__init__", "tunable.__set_name__"):
            self.writes.append((obj, name, it.site(node)))


def check(ctx):
    ctx.assume("python", "ntcore")
    for r, t in (("C09.O1", "key = '/'+prefix+'/'+name[+'/'+subtable]+'/'+attr (no prefix: '/'+name...), one topic per attribute; MagicRobot call sites"),
                 ("C09.O2", "topic class from the default's exact type / array table"),
                 ("C09.O3", "writeDefault: set(default) vs setDefault(default) on the entry of that topic"),
                 ("C09.O4", "fresh per-instance map; nothing stored on descriptor or class"),
                 ("C09.O5", "__get__/__set__ go through instance-map[self].get()/.set(value); class access returns the descriptor")):
        ctx.rule(r, t)
    mt = fn.module(ctx, MT)
    TUN, ST = mt.ns.get("tunable"), mt.ns.get("setup_tunables")
    site = (mt.filename, ST.node.lineno, "setup_tunables")
    h = Hooks()
    it = Interp(ctx.program, hooks=h)
    attrs = {
        "gain": (F("1.5"), {}, "Double"),
        "enabled": (True, {"writeDefault": False}, "Boolean"),
        "count": (3, {"subtable": "stats"}, "Integer"),
        "label": ("x", {"writeDefault": False, "subtable": "stats"}, "String"),
        "blob": (b"\x00", {}, "Raw"),
        "zeta": (F(0), {}, "Double"),
        "samples": (ListV([F(1), F(2)]), {}, "DoubleArray"),
        "names": (ListV(["a", "b"]), {"writeDefault": False}, "StringArray"),
        "flags": (ListV([True, False]), {}, "BooleanArray"),
        "ids": (ListV([1, 2]), {}, "IntegerArray"),
        # a type hint that differs from the type of the default decides the topic type (kp: float = tunable(0))
        "kp": (0, {}, "Double"),
    }
    HINTS = {"kp": "float"}

    def mkclass(name, bases, spec):
        ns = {"__annotations__": DictV({a: HINTS[a] for a in spec if a in HINTS}), "__doc__": None}
        for a, (default, kw, _) in spec.items():
            ns[a] = it.call(TUN, [default], dict(kw))
        c = ClassV(name, bases, ns, mt, None, name, mutable=True)
        it.finish_class(c)
        return c

    try:
        Base = mkclass("Owner", [], attrs)
        Sub = mkclass("SubOwner", [Base], {"gain": (F("2.5"), {}, "Double"), "extra": (7, {"subtable": "stats"}, "Integer")})
    except AbsRaise as ar:
        ctx.fail("C09.O2", f"declaring tunables of the supported types raises {fn.exc_name(ar)} {getattr(ar.exc, 'fields', {}).get('args')}", site=site, key="C09.O2|declare")
        return
    eff = dict(attrs)
    eff.update({"gain": (F("2.5"), {}, "Double"), "extra": (7, {"subtable": "stats"}, "Integer")})
    n_checked = 0
    for K, spec in ((Base, attrs), (Sub, eff)):
        for prefix in ("components", "autonomous", None):
            cname = Sym("ownername", "str", tag="nonnull", uid=0)
            o = Obj(K)
            n0 = len(it.trace)
            try:
                it.call(ST, [o, cname, prefix], {})
            except AbsRaise as ar:
                ctx.fail("C09.O1", f"setup_tunables raises {fn.exc_name(ar)} for class {K.name}, prefix {prefix!r}", site=site, key="C09.O1|raise")
                continue
            evs = [e for e in it.trace[n0:] if e.kind == "ext"]
            sets = [e for e in evs if e.name.endswith(".set") or e.name.endswith(".setDefault")]
            by_attr = {}
            for e in sets:
                ch = chain(e.callee)
                key = effective_key(ch)
                by_attr.setdefault(repr(key), []).append((e, ch))
            tmap = None
            for k, v in o.fields.items():
                if isinstance(v, DictV) and v.items and all(isinstance(x, Obj) and x.cls is TUN for x in v.items):
                    tmap = v
            ctx.require(tmap is not None and len(tmap.items) == len(spec), "C09.O4", f"{K.name}: instance map binds {len(spec)} tunables", f"setup_tunables binds {len(tmap.items) if tmap else 0} descriptors on an instance of {K.name}, which resolves {len(spec)} tunable attributes", site=site, key=f"C09.O4|count|{K.name}")
            for a, (default, kw, tname) in spec.items():
                sub = kw.get("subtable")
                pre = ("/" + prefix + "/") if prefix else "/"
                want = SymStr((pre, cname, ("/" + sub if sub else "") + "/" + a))
                hits = by_attr.get(repr(want), [])
                n_checked += 1
                if len(hits) != 1:
                    others = [k for k in by_attr if k.endswith("/" + a + ">")]
                    ctx.fail("C09.O1", f"{K.name}.{a} (prefix {prefix!r}{', subtable ' + repr(sub) if sub else ''}): {len(hits)} topics are written at the documented key {want!r}; keys used for this attribute: {others or 'none'}", site=site, key=f"C09.O1|key|{a if len(hits) else 'missing'}|{K.name}")
                    continue
                e, ch = hits[0]
                wd = kw.get("writeDefault", True)
                meth = e.name.rsplit(".", 1)[-1]
                ctx.require(meth == ("set" if wd else "setDefault"), "C09.O3", f"{a}: writeDefault={wd} -> {meth}", f"{K.name}.{a} declared writeDefault={wd} is bound with {meth}(): an existing dashboard value would be {'kept' if wd else 'overwritten'}", site=site, key=f"C09.O3|{wd}")
                same = e.args and _same(e.args[0], default)
                ctx.require(bool(same), "C09.O3", f"{a}: default {default!r} written", f"{K.name}.{a}: setup writes {e.args[0] if e.args else None!r}, the effective default is {default!r}", site=site, key=f"C09.O3|default|{a}")
                topic = [m for m, args in ch if m.endswith("Topic") and m not in ("getTopic",)]
                ctx.require(topic == [tname + "Topic"], "C09.O2", f"{a}: {type(default).__name__} default -> ntcore.{tname}Topic", f"{K.name}.{a} with default {default!r} is published through {topic}; expected ntcore.{tname}Topic", site=site, key=f"C09.O2|{tname}")
                getentry = [args for m, args in ch if m == "getEntry"]
                ctx.require(bool(getentry) and _same(getentry[-1][0], default), "C09.O3", f"{a}: entry created with its default", f"{K.name}.{a}: the entry is created with {getentry[-1] if getentry else None}", site=site, key=f"C09.O3|entrydefault|{a}")
            # O5 accessors on this instance
            if tmap is not None:
                for a in list(spec)[:3] + (["gain"] if "gain" in spec else []):
                    desc = K.lookup(a)[1]
                    entry = tmap.items.get(desc)
                    n1 = len(it.trace)
                    val = it.getattr(o, a)
                    gets = [e for e in it.trace[n1:] if e.kind == "ext" and e.name.endswith(".get")]
                    ctx.require(len(gets) == 1 and gets[0].callee.parent is entry and val is gets[0].extra, "C09.O5", f"read of {a} returns entry.get()", f"reading {K.name}.{a} on an instance does not return its own entry's get() (calls {[e.name[-30:] for e in gets]})", site=site, key="C09.O5|get")
                    n2 = len(it.trace)
                    nv = Sym("newvalue", "any", uid=0)
                    it.setattr(o, a, nv)
                    ss = [e for e in it.trace[n2:] if e.kind == "ext" and e.name.endswith(".set")]
                    ctx.require(len(ss) == 1 and ss[0].callee.parent is entry and ss[0].args and ss[0].args[0] is nv and a not in o.fields, "C09.O5", f"write of {a} calls entry.set(value)", f"assigning {K.name}.{a} on an instance does not call its own entry's set(value)", site=site, key="C09.O5|set")
                    ctx.require(it.getattr(K, a) is desc, "C09.O5", "class access returns the descriptor", f"{K.name}.{a} on the class does not return the descriptor", site=site, key="C09.O5|class")
    ctx.cov["tunables_bound"] = n_checked
    ctx.floor("tunable bindings checked", n_checked, 60)
    # ---- O4 per instance
    a1, a2 = Obj(Base), Obj(Base)
    it.call(ST, [a1, "left", "components"], {})
    it.call(ST, [a2, "right", "components"], {})
    m1 = [v for v in a1.fields.values() if isinstance(v, DictV)]
    m2 = [v for v in a2.fields.values() if isinstance(v, DictV)]
    ok = m1 and m2 and m1[0] is not m2[0] and all(m1[0].items[k] is not m2[0].items[k] for k in m1[0].items)
    ctx.require(bool(ok), "C09.O4", "two instances get distinct maps and distinct entries", "two instances of one class share a tunable map or entry: they would share values", site=site, key="C09.O4|shared")
    ctx.require(not h.writes, "C09.O4", "no descriptor attribute is written after class creation", f"a tunable descriptor is written at {h.writes[:1]}: values/entries stored on the descriptor are shared by all instances", site=h.writes[0][2] if h.writes else site, key="C09.O4|descriptor")
    cw = [e for e in it.trace if e.kind == "class_write"]
    ctx.require(not cw, "C09.O4", "no class attribute is written during binding/access", f"setup/access writes class attributes {[e.name for e in cw][:2]}", site=site, key="C09.O4|class")
    # bool vs int, errors
    GT = mt.ns.get("_get_topic_type_for_value")
    for v, want in ((True, "BooleanTopic"), (1, "IntegerTopic"), (F(1), "DoubleTopic")):
        r = it.call(GT, [v], {})
        ctx.require(isinstance(r, Ext) and r.path == "ntcore." + want, "C09.O2", f"{v!r} -> {want}", f"default {v!r} maps to {r!r}, expected ntcore.{want}", site=site, key=f"C09.O2|exact|{want}")
    # ---- call sites
    info, paths = rr.create_paths(ctx)
    ctx.add("paths", len(paths))
    problems = set()
    n = 0
    for p in paths:
        if p.outcome != "return":
            continue
        n += 1
        evs = rr.create_events(p)
        st = [e for e in evs if e[0] == "phase" and e[1] == "setup_tunables"]
        rob = [e for e in st if isinstance(e[2][0], Obj)]
        if len(rob) != 1 or rob[0][2][1] != "robot" or rob[0][2][2] is not None:
            problems.add("the robot's own tunables are not bound exactly once as ('robot', prefix None)")
        for c in [e[1] for e in evs if e[0] == "create"]:
            mine = [e for e in st if isinstance(e[2][0], Ext) and e[2][0].path.startswith(f"annotated_type#{c}(")]
            if len(mine) != 1 or mine[0][2][2] != "components" or not (isinstance(mine[0][2][1], Sym) and mine[0][2][1].name == f"attr#{c}"):
                problems.add("a component's tunables are not bound exactly once under ('components', its robot attribute name)")
        modes = [e for e in st if isinstance(e[2][0], Ext) and "modes" in e[2][0].path]
        for e in modes:
            if e[2][2] != "autonomous" or not (isinstance(e[2][1], Ext) and e[2][1].path == e[2][0].path + ".MODE_NAME"):
                problems.add("an autonomous mode's tunables are not bound under ('autonomous', its MODE_NAME)")
    for b in sorted(problems):
        ctx.fail("C09.O1", b, site=("magicbot/magicrobot.py", 0, "MagicRobot._create_components"), key=f"C09.O1|site|{b[:30]}")
    if not problems:
        ctx.ok("C09.O1", f"setup_tunables call sites correct on {n} start-up paths")
    ctx.sample({"key_example": repr(SymStr(("/components/", Sym("ownername", "str", uid=0), "/stats/count")))})


def _same(a, b):
    if isinstance(a, ListV) and isinstance(b, ListV):
        return a.items == b.items
    return a is b or (type(a) is type(b) and a == b)
