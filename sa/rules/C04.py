"""C04 - stopping always goes through done() and resets the machine (typestate closure)."""
from . import smcommon

EXPLANATION = (
    "Same typestate closure as C01 (transformers computed from magicbot/state_machine.py on every run, most-general client, "
    "fixed point).  Monitors: C04.M1 after an iteration whose last state call was a regular state not followed by done(), "
    "is_executing is True and current_state non-empty; C04.M2 otherwise both are reset, and a machine that was running does "
    "not stop without a done() call; C04.M3 done()/on_disable() reset the getters immediately; C04.M4 the first regular "
    "state call after a stop receives tm == 0 exactly (symbolically: clock read minus stored start instant folds to 0); "
    "C04.M5 current_state names the state that runs next; C04.M6 the engine stops the machine only for a cause (engage() not called for this iteration, or the last timed state expired).  C04.M7 when engage() was not called for an iteration no regular (non must_finish) state runs in it - the machine stops in that iteration, not one later."
)
RULE = "one case = one (typestate, client call, oracle resolution) transition; distinct = reachable typestates"
EXHAUSTIVE = True
OWNED = {"C04.M1", "C04.M2", "C04.M3", "C04.M4", "C04.M5", "C04.M6", "C01.M1", "CRASH", "ISO"}
RENAME = {"C01.M1": "C04.M7"}


def check(ctx):
    ctx.rule("ISO", "calls on one instance never change the heap reachable from another instance of the same class")
    ctx.assume("python", "clock", "client")
    ctx.rule("C04.M1", "running => is_executing and current_state names a state")
    ctx.rule("C04.M2", "not running => is_executing False, current_state '', and done() was called if the machine was running before")
    ctx.rule("C04.M3", "after client done()/on_disable(): is_executing False and current_state ''")
    ctx.rule("C04.M4", "first regular state call after a stop: tm is exactly 0")
    ctx.rule("C04.M5", "if only engage() is called and no timer fires, the first state run is the one current_state named")
    ctx.rule("C04.M6", "the engine calls done() only for a cause: no engage() for this iteration, or the last timed state expired")
    ctx.rule("C04.M7", "when engage() was not called for an iteration, no regular (non must_finish) state runs in it: the machine stops in that iteration, not one later")
    res = smcommon.run_universes(ctx, "StateMachine", owned=OWNED)
    smcommon.report(ctx, res, OWNED, RENAME)
    ctx.floor("universes", len(res), 4)
    ctx.floor("typestates", sum(r["states"] for r in res), 1000)
