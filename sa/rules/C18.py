"""C18 - unit conversion is consistent and linear sensors report exact scaled values."""
import ast
from fractions import Fraction as F

from .. import expralg as ea
from .. import fn
from ..framework import AnalysisError
from ..interp import Frame, Interp
from ..values import App, ClassV, DictV, Ext, FuncV, Lin, ListV, Obj, SetV, Sym, vkey

EXPLANATION = (
    "Exact rational-function algebra over symbolic evaluations of the real code (decimal literals as Fractions, no floats): "
    "C18.O1 every unit of the table has base_to_unit and unit_to_base that are exact inverse linear maps, with 100 cm/m, 0.3048 m/ft, "
    "12 in/ft on the documented base chain; C18.O2 convert() evaluated on all 16 ordered pairs of table units gives x times the "
    "exact ratio, and evaluated on abstract user-defined chains (two branches, depth up to 3, *symbolic* factors) satisfies identity, "
    "round trip and path independence a->b->c == a->c as rational-function identities, so linearity and consistency hold for chains "
    "of any such shape and any finite value; convert() writes no module-level state (result independent of call history); C18.O3 the "
    "sonar drivers return (period / 147 us) converted from inches resp. (voltage / 4.9 mV) converted from centimetres to the "
    "constructor's unit, for every output unit; C18.O4 the pressure reading equals 250*max(v,eps)/V - 25 with V the calibrated "
    "value if present else the supply voltage, no path of the property raises (the division sits in a ZeroDivisionError handler), "
    "and after one or two calibrate() calls the reading at the calibration voltage is exactly the last calibration pressure.  The same identities are decided on a chain of user-defined units with offsets (x*k + d), whose conversions do not commute, so the order in which convert() walks to the root and back is decided too."
)
RULE = "one obligation per table unit / ordered pair / chain identity / sensor formula; values symbolic, constants exact"
EXHAUSTIVE = True
UNITS = "robotpy_ext.common_drivers.units"
SONAR = "robotpy_ext.common_drivers.xl_max_sonar_ez"
PRESS = "robotpy_ext.common_drivers.pressure_sensors"
METRES = {"meter": F(1), "centimeter": F(1, 100), "foot": F("0.3048"), "inch": F("0.3048") / 12}
BASES = {"meter": None, "centimeter": "meter", "foot": "meter", "inch": "foot"}


def lam(it, mod, src, env):
    fr = Frame(mod)
    fr.locals = dict(env)
    fr.func = None
    f = it.make_function(ast.parse(src, mode="eval").body, fr)
    f.closure = [fr.locals]
    return f


class Purity:
    """who-may-write: records writes to containers that existed before the call"""

    def __init__(self, pre):
        self.pre = pre
        self.hits = []

    def on_mutate(self, it, c, node):
        if id(c) in self.pre:
            self.hits.append(it.site(node))


def module_containers(m):
    seen = {}

    def walk(v):
        if isinstance(v, (DictV, ListV, SetV)):
            if id(v) in seen:
                return
            seen[id(v)] = v
            for x in (v.items.values() if isinstance(v, DictV) else v.items):
                walk(x)
        elif isinstance(v, Obj):
            if id(v) in seen:
                return
            seen[id(v)] = v
            for x in v.fields.values():
                walk(x)

    for v in m.ns.values():
        walk(v)
    return seen


def check(ctx):
    ctx.assume("python", "ieee")
    for r, t in (("C18.O1", "table units: exact inverse linear maps with the documented factors and base chain"),
                 ("C18.O2", "convert(): exact ratios on all pairs; identity / round trip / path independence on symbolic chains; no module-level writes"),
                 ("C18.O3", "sonar: period/147us from inches, voltage/4.9mV from centimetres, converted to the constructor's unit"),
                 ("C18.O4", "pressure: 250*max(v,eps)/V - 25, never raises, calibrate(p) then reading at the same voltage == p")):
        ctx.rule(r, t)
    mu = fn.module(ctx, UNITS)
    Unit = mu.ns.get("Unit")
    conv = mu.ns.get("convert")
    if not isinstance(Unit, ClassV) or not isinstance(conv, FuncV):
        raise AnalysisError("anchors units.Unit / units.convert not found")
    x = Sym("x", "num", uid=0)
    usite = (mu.filename, conv.node.lineno, "convert")
    # ---- O1
    units = {}
    for name in METRES:
        u = mu.ns.get(name)
        if not (isinstance(u, Obj) and u.cls is Unit):
            raise AnalysisError(f"units.{name} is not a Unit instance")
        units[name] = u
    it = Interp(ctx.program)
    for name, u in units.items():
        base = u.fields.get("base_unit")
        want = BASES[name]
        ctx.require((base is None and want is None) or (want is not None and base is units[want]), "C18.O1", f"{name}: base unit is {want}", f"units.{name} is based on the wrong unit (expected {want})", site=usite, key=f"C18.O1|{name}|base")
        if want is None:
            continue
        up = it.call(u.fields["unit_to_base"], [x], {})
        down = it.call(u.fields["base_to_unit"], [x], {})
        k = METRES[name] / METRES[want]
        ctx.require(Lin.of(up) == Lin.of(x).scale(k), "C18.O1", f"{name}.unit_to_base(x) == {k} * x", f"units.{name}.unit_to_base(x) = {up!r}, expected {k} * x", site=usite, key=f"C18.O1|{name}|up")
        ctx.require(Lin.of(down) == Lin.of(x).scale(1 / k), "C18.O1", f"{name}.base_to_unit(x) == x / {k}", f"units.{name}.base_to_unit(x) = {down!r}, expected x / {k}", site=usite, key=f"C18.O1|{name}|down")
        rt = it.call(u.fields["base_to_unit"], [up], {})
        ctx.require(Lin.of(rt) == Lin.of(x), "C18.O1", f"{name}: base_to_unit(unit_to_base(x)) == x exactly", f"units.{name}: base_to_unit and unit_to_base are not inverse ({rt!r})", site=usite, key=f"C18.O1|{name}|inv")
    # ---- O2 (a) all ordered pairs of table units
    pre = module_containers(mu)
    pur = Purity(pre)
    for a, ua in units.items():
        for b, ub in units.items():
            it = Interp(ctx.program, hooks=pur)
            r = it.call(conv, [ua, ub, x], {})
            c = METRES[a] / METRES[b]
            ctx.require(isinstance(r, (Lin, Sym)) and Lin.of(r) == Lin.of(x).scale(c), "C18.O2", f"convert({a}, {b}, x) == {c} * x", f"convert({a}, {b}, x) = {r!r}, expected {c} * x", site=usite, key=f"C18.O2|{a}|{b}")
    # ---- O2 (b) abstract chains with symbolic factors
    it = Interp(ctx.program, hooks=pur)
    ks = {}

    def mk(name, base):
        if base is None:
            return it.call(Unit, [], {"base_unit": None, "base_to_unit": lam(it, mu, "lambda x: None", {}), "unit_to_base": lam(it, mu, "lambda x: None", {})})
        k = Sym("k_" + name, "num", uid=0)
        ks[name] = k
        return it.call(Unit, [], {"base_unit": base, "base_to_unit": lam(it, mu, "lambda x: x * k", {"k": k}), "unit_to_base": lam(it, mu, "lambda x: x / k", {"k": k})})

    R = mk("R", None)
    A1 = mk("A1", R)
    A2 = mk("A2", A1)
    A3 = mk("A3", A2)
    B1 = mk("B1", R)
    B2 = mk("B2", B1)
    chain = {"R": R, "A1": A1, "A2": A2, "A3": A3, "B1": B1, "B2": B2}
    cv = {}
    for a, ua in chain.items():
        for b, ub in chain.items():
            cv[a, b] = ea.ratfunc(it.call(conv, [ua, ub, x], {}))
    X = ea.ratfunc(x)
    n = 0
    for a in chain:
        ctx.require(cv[a, a].equals(X), "C18.O2", f"chain: convert({a},{a},x) == x", f"convert(u, u, x) != x on a user-defined chain (unit {a})", site=usite, key="C18.O2|chain|id")
        for b in chain:
            # linear: c(a,b) * x  => round trip and composition as products of coefficients (x == 1 normalisation)
            back = it.call(conv, [chain[b], chain[a], it.call(conv, [chain[a], chain[b], x], {})], {})
            ctx.require(ea.ratfunc(back).equals(X), "C18.O2", f"chain: {a}->{b}->{a} == x", f"converting {a}->{b}->{a} does not return the value on a user-defined chain: {back!r}", site=usite, key="C18.O2|chain|roundtrip")
            for c in chain:
                via = it.call(conv, [chain[b], chain[c], it.call(conv, [chain[a], chain[b], x], {})], {})
                n += 1
                if not ea.ratfunc(via).equals(cv[a, c]):
                    ctx.fail("C18.O2", f"path dependence on a user-defined chain: {a}->{b}->{c} gives {via!r} but {a}->{c} gives a different value", site=usite, key="C18.O2|chain|path")
    ctx.ok("C18.O2", f"path independence a->b->c == a->c on {n} triples of a 6-unit symbolic chain")
    # ---- O2 (c) a chain of units with offsets (x*k + d, like temperature scales): conversions that do not commute,
    # so the order in which convert() walks to the root and back matters
    it2 = Interp(ctx.program, hooks=pur)

    def mka(name, base):
        if base is None:
            return it2.call(Unit, [], {"base_unit": None, "base_to_unit": lam(it2, mu, "lambda x: None", {}), "unit_to_base": lam(it2, mu, "lambda x: None", {})})
        k, d = Sym("k_" + name, "num", uid=0), Sym("d_" + name, "num", uid=0)
        return it2.call(Unit, [], {"base_unit": base, "base_to_unit": lam(it2, mu, "lambda x: (x - d) / k", {"k": k, "d": d}), "unit_to_base": lam(it2, mu, "lambda x: x * k + d", {"k": k, "d": d})})

    Ra = mka("R", None)
    T1 = mka("T1", Ra)
    T2 = mka("T2", T1)
    T3 = mka("T3", T2)
    U1 = mka("U1", Ra)
    ach = {"R": Ra, "T1": T1, "T2": T2, "T3": T3, "U1": U1}
    na = 0
    bad_aff = None
    for a in ach:
        same = it2.call(conv, [ach[a], ach[a], x], {})
        if not ea.ratfunc(same).equals(X):
            bad_aff = bad_aff or f"convert(u, u, x) = {same!r} != x for the user-defined unit {a} of a chain with offsets"
        for b in ach:
            there = it2.call(conv, [ach[a], ach[b], x], {})
            back = it2.call(conv, [ach[b], ach[a], there], {})
            na += 1
            if not ea.ratfunc(back).equals(X):
                bad_aff = bad_aff or f"converting {a}->{b}->{a} on a chain of units with offsets returns {back!r}, not the value"
            for c in ach:
                via = it2.call(conv, [ach[b], ach[c], there], {})
                direct = it2.call(conv, [ach[a], ach[c], x], {})
                if not ea.ratfunc(via).equals(ea.ratfunc(direct)):
                    bad_aff = bad_aff or f"{a}->{b}->{c} differs from {a}->{c} on a chain of units with offsets"
    ctx.require(bad_aff is None, "C18.O2", f"identity / round trip / path independence on {na} pairs of a chain of units with offsets (non-commuting conversions)", bad_aff or "", site=usite, key="C18.O2|chain|offsets")
    ctx.add("chain_triples", n)
    ctx.require(not pur.hits, "C18.O2", "convert() writes no container that outlives the call", f"convert() writes module-level state at {pur.hits[:1]}: the result of a conversion can depend on earlier calls", site=pur.hits[0] if pur.hits else usite, key="C18.O2|purity")
    ctx.sample({"convert(inch, centimeter, x)": repr(Interp(ctx.program).call(conv, [units["inch"], units["centimeter"], x], {}))})
    # ---- O3 sonar
    msn = fn.module(ctx, SONAR)
    # (the public driver classes: private helpers / abstract bases are reached through them)
    sonar = [v for v in msn.ns.values() if isinstance(v, ClassV) and v.module is msn and v.lookup("get")[1] is not None and not v.name.startswith("_")]
    ctx.floor("sonar drivers", len(sonar), 2)
    seen_kinds = set()
    for K in sonar:
        site = (msn.filename, K.node.lineno, K.name + ".get")
        for uname, u in units.items():
            itp = Interp(ctx.program)
            o = itp.call(K, [Sym("channel", "num")], {"output_units": u})
            n0 = len(itp.trace)
            r = itp.call(itp.getattr(o, "get"), [], {})
            reads = [e for e in itp.trace[n0:] if e.kind == "ext"]
            srcs = [s for s in fn.syms_in(r) if isinstance(s.tag, tuple) and s.tag[0] == "ext"]
            if len(srcs) != 1:
                ctx.fail("C18.O3", f"{K.name}.get() does not depend on exactly one reading: {r!r}", site=site, key=f"C18.O3|{K.name}|src")
                continue
            src = srcs[0]
            if src.name.endswith("getPeriod()"):
                kind, scale, from_u = "pulse width", 1 / F("0.000147"), "inch"
            elif "getVoltage" in src.name or "getAverageVoltage" in src.name:
                kind, scale, from_u = "voltage", 1 / F("0.0049"), "centimeter"
            else:
                ctx.fail("C18.O3", f"{K.name}.get() reads {src.name}", site=site, key=f"C18.O3|{K.name}|read")
                continue
            seen_kinds.add(kind)
            want = Lin.of(src).scale(scale * METRES[from_u] / METRES[uname])
            ctx.require(Lin.of(r) == want, "C18.O3", f"{K.name}(output={uname}).get() == {kind} * {scale * METRES[from_u] / METRES[uname]}", f"{K.name}(output_units={uname}).get() = {r!r}; expected {kind} / {'147 us in inches' if kind == 'pulse width' else '4.9 mV in centimetres'} converted to {uname} = {want!r}", site=site, key=f"C18.O3|{K.name}|{uname}")
    ctx.require(seen_kinds == {"pulse width", "voltage"}, "C18.O3", "both sonar read-out methods present", f"sonar drivers found for {sorted(seen_kinds)} only", site=(msn.filename, 1, "module"), key="C18.O3|kinds")
    # ---- O4 pressure
    mp = fn.module(ctx, PRESS)
    P = [v for v in mp.ns.values() if isinstance(v, ClassV) and v.module is mp and v.lookup("pressure")[1] is not None and not v.name.startswith("_")]
    ctx.floor("pressure sensors", len(P), 1)
    for K in P:
        site = (mp.filename, K.node.lineno, K.name + ".pressure")
        Vcc = Sym("Vcc", "num", uid=0)

        def reading_vars(vals):
            # every max(<reading>, eps) of the given values is one and the same voltage variable
            sub = {}
            for val in vals:
                for t in _apps(val):
                    if t.op == "max" and any(isinstance(a, Sym) and isinstance(a.tag, tuple) and a.tag[0] == "ext" for a in t.args):
                        eps = [a for a in t.args if isinstance(a, (int, F))]
                        sub[vkey(t)] = ("v", eps[0] if eps else None)
            return sub

        for ncal in (0, 1, 2):
            def run(itp, w, ncal=ncal):
                itp.div_zero_fork = True
                o = itp.call(K, [Sym("channel", "num")], {"voltage_in": Vcc})
                ps = []
                for j in range(ncal):
                    pj = Sym(f"p{j + 1}", "num", uid=0)
                    ps.append(pj)
                    itp.call(itp.getattr(o, "calibrate"), [pj], {})
                return ps, itp.getattr(o, "pressure")

            def cfg(itp):
                itp.div_zero_fork = True

            paths = fn.all_paths(ctx, run, configure=cfg)
            ctx.add("paths", len(paths))
            normal = 0
            for p in paths:
                if p.outcome == "raise":
                    where = "pressure" if ncal == 0 else f"calibrate()/pressure after {ncal} calibration(s)"
                    # calibrate() itself may divide by 0.004 p + 0.1 == 0 only for p == -25 (< 0, outside the statement)
                    if ncal and any(a[0] == "eq0" and val and "p" in repr(a[2]) and "max" not in repr(a[2]) for a, val, _ in p.path):
                        continue
                    ctx.fail("C18.O4", f"{K.name}: {where} can raise {fn.exc_name(p.value)}", site=site, key=f"C18.O4|{K.name}|raise")
                    continue
                if p.outcome != "return":
                    continue
                ps, val = p.value
                zero_path = any(a[0] == "eq0" and v_ for a, v_, _ in p.path)
                if zero_path:
                    continue  # the handler's fallback value for a zero supply/calibration voltage
                normal += 1
                sub = {k: v[0] for k, v in reading_vars([val]).items()}
                epss = {v[1] for v in reading_vars([val]).values()}
                rf = ea.ratfunc(val, sub)
                v = ea.Rat(ea.Poly.var("v"))
                if ncal == 0:
                    want = (v * ea.Rat(ea.Poly.const(250))).div(ea.ratfunc(Vcc)) + ea.Rat(ea.Poly.const(-25))
                    ok = rf.equals(want) and all(e is not None and 0 < e <= F(1, 1000) for e in epss) and len(epss) == 1
                    ctx.require(ok, "C18.O4", f"{K.name}.pressure == 250*max(v,eps)/Vcc - 25", f"{K.name}.pressure = {val!r}; expected 250*max(v, eps)/Vcc - 25 with 0 < eps <= 1 mV", site=site, key=f"C18.O4|{K.name}|formula")
                else:
                    want = ea.ratfunc(ps[-1])
                    ctx.require(rf.equals(want), "C18.O4", f"{K.name}: after {ncal} calibrate() call(s) the reading at the calibration voltage == p{ncal}", f"{K.name}: after calibrate(p1){'; calibrate(p2)' if ncal == 2 else ''} the reading at the calibration voltage is {val!r}, not the last calibration pressure", site=site, key=f"C18.O4|{K.name}|cal{ncal}")
            ctx.require(normal >= 1, "C18.O4", f"{K.name}: pressure has a normal path ({ncal} calibrations)", f"{K.name}.pressure has no normal path", site=site, key=f"C18.O4|{K.name}|nopath")
        ctx.sample({"sensor": K.name, "calibrations": [0, 1, 2]})


def _apps(v, acc=None):
    acc = [] if acc is None else acc
    if isinstance(v, Lin):
        for a in v.terms:
            _apps(a, acc)
    elif isinstance(v, App):
        acc.append(v)
        for a in v.args:
            _apps(a, acc)
    return acc
