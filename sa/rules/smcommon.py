"""Shared driver for the StateMachine closure checks (C01-C04, C13): runs the universes in
parallel processes and distributes the monitor verdicts to the property that owns each rule."""
from __future__ import annotations

import itertools
import multiprocessing as mp
import os

from ..closure import close
from ..interp import Program
from ..smworld import StateSpec
from . import sm

PARAMS = ("tm", "state_tm", "initial_call")


def signature_universes():
    """All 16 ordered subsets of (tm, state_tm, initial_call) on every kind of state decorator."""
    subsets = [()]
    for r in (1, 2, 3):
        subsets += list(itertools.permutations(PARAMS, r))
    out = []
    kinds = [("timed", False), ("state", False), ("timed", True), ("default", False)]
    # rotate so that every subset meets every decorator kind
    for rot in range(4):
        for i in range(0, 16, 4):
            group = subsets[i:i + 4]
            specs = []
            names = ["first", "reg", "mf", "dflt"]
            for j, sig in enumerate(group):
                kind, mfl = kinds[(j + rot) % 4]
                nm = names[(j + rot) % 4]
                specs.append((nm, kind, mfl, sig))
            order = {n: k for k, n in enumerate(names)}
            specs.sort(key=lambda t: order[t[0]])
            ss = []
            for nm, kind, mfl, sig in specs:
                if nm == "dflt":
                    ss.append(StateSpec(nm, "default", params=sig))
                elif nm == "first":
                    ss.append(StateSpec(nm, "timed" if kind in ("timed", "default") else "state", first=True, params=sig))
                elif nm == "mf":
                    ss.append(StateSpec(nm, "timed" if kind in ("timed", "default") else "state", must_finish=True, params=sig))
                else:
                    ss.append(StateSpec(nm, "state" if kind == "state" else "timed", params=sig))
            label = ";".join(f"{s.name}({','.join(s.params)})" for s in ss)
            out.append((f"signatures[{label}]", ss))
    return out


def _one(args):
    """one universe in a worker process; analysis problems come back as text (abstract values do not pickle)"""
    from ..values import Unsupported as _U

    try:
        return _one_universe(args)
    except _U as e:
        return {"error": ("Unsupported", str(e))}
    except Exception as e:  # noqa
        import traceback

        return {"error": (type(e).__name__, f"{e}\n{traceback.format_exc()[-1500:]}")}


def _one_universe(args):
    repo, tier, base, idx, mode, owned = args
    program = Program(repo)
    if mode == "sig":
        uname, specs = signature_universes()[idx]
        max_script, max_nest = 1, 0
    else:
        uname, specs, max_script, max_nest = sm.universes(tier, base)[idx]
    world, it0 = sm.make_world(program, specs, base, sm.configure)
    mon = sm.SMMonitor(specs, base)
    acts = sm.sm_actions(specs, base)
    if mode == "sig":
        acts = [a for a in acts if a in (("engage",), ("execute",), ("done",))]
    base_actions = sm.client_actions(specs, base)

    def actions(w, g):
        return [a for a in base_actions(w, g) if a in acts]

    def hooks():
        h = sm.SMHooks(specs, max_script, max_nest)
        h.post_done = base != "StateMachine"  # the autonomous machine is also explored under "done(); next_state_now(X)" state functions
        return h

    r = close(program, world, dict(sm.GHOST0), actions, sm.run_sm_action, mon,
              hooks, configure=sm.configure, stop_rules=owned, frozen_roots=("other",),
              max_states=30000 if tier == "quick" else 3000000)  # (a quick universe has ~400 typestates: more means the abstraction no longer closes)
    cls = world["machine"].cls
    tun = {}
    for k, v in cls.ns.items():
        if hasattr(v, "recorded"):
            tun[k] = {kk: repr(vv) for kk, vv in v.fields.items()}
    return {
        "universe": uname, "specs": [repr(s) for s in specs], "states": r.states, "transitions": r.transitions, "paths": r.paths,
        "aborted": r.aborted, "events": r.run_events, "timing_checked": mon.timing.n_checked,
        "violations": [(v.rule, v.message, v.client_seq, v.events, v.site) for v in r.violations],
        "samples": r.samples[:2], "tunables": tun,
        "roles": {"machine_start": mon.timing.role_f0, "entry_time": {k: sorted(v) for k, v in mon.timing.role_f1.items()}, "expiry": {k: sorted(v) for k, v in mon.timing.role_f2.items()}},
    }


def run_universes(ctx, base="StateMachine", mode="full", owned=None):
    n = len(signature_universes()) if mode == "sig" else len(sm.universes(ctx.tier, base))
    jobs = [(ctx.repo, ctx.tier, base, i, mode, set(owned) if owned else None) for i in range(n)]
    procs = min(len(jobs), max(1, (os.cpu_count() or 2)))
    if ctx.tier == "thorough":
        procs = min(procs, 6)  # the large universes need several GB each
    if procs > 1 and not os.environ.get("VERIF_SERIAL"):
        # (a worker that dies - e.g. out of memory - breaks the pool with an error instead of hanging the check)
        import concurrent.futures as cf
        from ..values import Unsupported as _U

        try:
            with cf.ProcessPoolExecutor(max_workers=procs, mp_context=mp.get_context("fork")) as pool:
                res = list(pool.map(_one, jobs))
        except cf.process.BrokenProcessPool as e:
            raise _U(f"a worker process of the closure died (out of memory?): {e}")
    else:
        res = [_one(j) for j in jobs]
    for r in res:
        if "error" in r:
            from ..values import Unsupported as _U

            kind, msg = r["error"]
            if kind == "Unsupported":
                raise _U(msg)
            raise RuntimeError(f"{kind}: {msg}")
    return res


def report(ctx, results, owned, rename=None, what="closure"):
    """Record coverage and the verdict of every owned rule per universe."""
    rename = rename or {}
    ctx.used("magicbot/state_machine.py")
    for r in results:
        ctx.add("states", r["states"])
        ctx.add("transitions", r["transitions"])
        ctx.add("paths", r["paths"])
        ctx.add("universes", 1)
        ctx.add("evaluations", r["paths"])
        ctx.add("distinct_nontrivial", r["states"])
        ctx.add("state_function_calls_checked", r["timing_checked"])
        if r["aborted"]:
            ctx.add("paths_cut_by_bounds", r["aborted"])
        mine = [v for v in r["violations"] if v[0] in owned]
        bad_rules = {v[0] for v in mine}
        for rule in sorted(owned):
            shown = rename.get(rule, rule)
            if rule in bad_rules:
                continue
            ctx.ok(shown, f"{shown} held on every transition of universe {r['universe']} ({r['states']} typestates, {r['transitions']} transitions)")
        for rule, msg, seq, events, site in mine:
            shown = rename.get(rule, rule)
            ctx.fail(shown, f"{msg} [universe {r['universe']}; client sequence: {' ; '.join(seq)}]", site=site, key=f"{shown}|{msg[:60]}", detail={"client_sequence": seq, "events": events, "universe": r["universe"]})
        for s in r["samples"][:1]:
            ctx.sample({"universe": r["universe"], **s})
    ctx.cov["exhaustive"] = True
