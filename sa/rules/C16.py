"""C16 - NotifierDelay keeps the loop on a fixed time grid without drift."""
from fractions import Fraction as F

from .. import fn
from ..framework import AnalysisError
from ..interp import Interp
from ..values import App, Cond, Ext, Lin, Obj, Sym, vkey

EXPLANATION = (
    "Per-path obligations on robotpy_ext/misc/precise_delay.py with symbolic fields (affine terms over the stored expiry E, the period "
    "P and clock reads), roles inferred from the HAL calls rather than field names: C16.O1 the constructor rejects periods below 1 ms "
    "before any HAL call, otherwise arms the first alarm at (FPGA microsecond clock read) + int(period*1e6); C16.O2 wait() on a live "
    "object calls waitForNotifierAlarm(h) then updateNotifierAlarm(h, E + P) on every path and stores exactly E + P - the term contains "
    "no clock read or HAL result, which is what keeps alarms on the t0 + k*P grid and catches an overrun up; only __init__ and wait "
    "write the expiry; C16.M1 typestate {live, freed}: free()/__exit__/__del__ on a live object emit stopNotifier(h) then "
    "cleanNotifier(h) once; on a freed object free() and wait() emit no HAL call at all (wait returns immediately).  Induction "
    "(DESIGN.md): expiry after k waits is t0 + (k+1)P; with the HAL fact the k-th wait returns at max(t0 + kP, call time).  If no object "
    "field holds the expiry (state kept elsewhere, e.g. in a suspended generator) the same equations are decided for the first four waits "
    "of one object and the evidence says so (coverage key 'mode')."
)
RULE = "one obligation per path of __init__/wait/free (symbolic fields) and per typestate transition"
EXHAUSTIVE = True
MOD = "robotpy_ext.misc.precise_delay"


def hal(trace):
    return [e for e in trace if e.kind == "ext" and e.name.startswith("hal.")]


def check(ctx):
    ctx.assume("python", "hal", "clock")
    ctx.rule("C16.O1", "period < 1 ms raises before any HAL call; else first alarm = FPGA us clock read + int(period * 1e6)")
    ctx.rule("C16.O2", "live wait(): waitForNotifierAlarm(h) ; updateNotifierAlarm(h, E+P); expiry' == E+P (no clock term); writers of the expiry: __init__, wait")
    ctx.rule("C16.M1", "free()/__exit__/__del__ release once (stopNotifier, cleanNotifier); afterwards wait()/free() make no HAL call")
    K = fn.anchor(ctx, MOD, "NotifierDelay")
    site = lambda n: (K.module.filename, (K.lookup(n)[1].node.lineno if K.lookup(n)[1] is not None else K.node.lineno), f"NotifierDelay.{n}")
    p = Sym("period", "num", uid=0)

    # ---- O1 constructor
    def mk(it, w):
        o = it.call(K, [p], {})
        return o

    paths = fn.all_paths(ctx, mk)
    ctx.add("paths", len(paths))
    live = None
    for pr in paths:
        small = [val for a, val, _ in pr.path if a[0] == "lt0" and fn.syms_in(a[2]) == {p}]
        if pr.outcome == "raise":
            okc = fn.exc_name(pr.value) == "ValueError" and not hal(pr.trace)
            ctx.require(okc, "C16.O1", "too-short period raises ValueError before any HAL call", f"constructor raises {fn.exc_name(pr.value)} after HAL calls {[e.name for e in hal(pr.trace)]}", site=site("__init__"), key="C16.O1|raise")
            # the rejecting comparison must be  period < 1/1000
            atom = [(a, val) for a, val, _ in pr.path if a[0] == "lt0"]
            good = any(val and a[2] == Lin.of(p).add(F(1, 1000), -1) for a, val in atom)
            ctx.require(good, "C16.O1", "rejection threshold is period < 0.001 s", f"constructor rejects under condition {[(repr(a[2]), v) for a, v in atom]}, expected period < 0.001", site=site("__init__"), key="C16.O1|threshold")
        elif pr.outcome == "return":
            live = pr
    if live is None:
        raise AnalysisError("NotifierDelay constructor has no normal path")
    o = live.value
    evs = hal(live.trace)
    arm = [e for e in evs if e.name == "hal.updateNotifierAlarm"]
    ctx.require(len(arm) == 1 and len(arm[0].args) == 2, "C16.O1", "constructor arms exactly one alarm", f"constructor arms {len(arm)} alarms", site=site("__init__"), key="C16.O1|arm")
    clocks = [e for e in live.trace if e.kind == "clock"]
    if arm:
        h, t = arm[0].args
        tl = Lin.of(t) if not isinstance(t, (Ext, bool)) else None
        now_us = [e.extra for e in clocks if e.extra.tag[1] == "us"]
        P = None
        if tl is not None and len(now_us) >= 1 and tl.terms.get(now_us[-1]) == 1:
            P = tl.add(now_us[-1], -1).simplify()
        okP = isinstance(P, App) and P.op == "int" and Lin.of(P.args[0]) == Lin.of(p).scale(1000000)
        ctx.require(okP, "C16.O1", "first alarm = RobotController.getFPGATime() + int(period * 1e6)", f"first alarm is armed at {t!r}; expected (integer FPGA microsecond clock read) + int(period*1e6)", site=site("__init__"), key="C16.O1|t0")
    # roles
    hfield = [k for k, v in o.fields.items() if isinstance(v, Ext) and "initializeNotifier" in v.path]
    efield = [k for k, v in o.fields.items() if arm and not isinstance(v, (Ext, bool)) and v is not None and _same(v, arm[0].args[1])]
    if len(hfield) == 1 and not efield and not ctx.violations:
        # the next alarm time is not held in a field of the object (e.g. inside a suspended generator): the inductive
        # step has nothing to range over; the grid is decided for the first waits of one object instead
        return bounded(ctx, K, p, site, hfield[0], arm, clocks)
    if len(hfield) != 1 or len(efield) != 1:
        raise AnalysisError(f"cannot infer the handle/expiry fields of NotifierDelay (handle candidates {hfield}, expiry candidates {efield})")
    hf, ef = hfield[0], efield[0]
    pf = [k for k, v in o.fields.items() if k not in (hf, ef) and not isinstance(v, (Ext, bool)) and v is not None and arm and _same(Lin.of(o.fields[ef]).add(v, -1).simplify(), [e.extra for e in clocks][-1])]
    ctx.cov["roles"] = f"handle={hf} expiry={ef} period={pf}"
    E, P = Sym("E", "num", uid=0), Sym("P", "num", uid=0)
    H = o.fields[hf]

    def pre(it):
        obj = it.call(K, [p], {})
        obj.fields[ef] = E
        for k in pf:
            obj.fields[k] = P
        return obj

    # ---- O2 wait on live
    def run_wait(it, w):
        if it.truth(Lin.of(p).add(F(1, 1000), -1).simplify() if False else False):
            pass
        obj = pre(it)
        n0 = len(it.trace)
        it.call(it.getattr(obj, "wait"), [], {})
        return obj, it.trace[n0:]

    def only_live(pr):
        return pr.outcome == "return"

    paths = [q for q in fn.all_paths(ctx, run_wait) if only_live(q)]
    ctx.add("paths", len(paths))
    ctx.floor("paths of wait()", len(paths), 1)
    for q in paths:
        obj, tr = q.value
        hs = hal(tr)
        names = [e.name for e in hs]
        cond = [f"{a[2]!r}<0 is {v}" for a, v, _ in q.path if a[0] == "lt0" and fn.syms_in(a[2]) != {p}]
        ok_seq = names == ["hal.waitForNotifierAlarm", "hal.updateNotifierAlarm"] and _is(hs[0].args[0], obj, hf, H) and _is(hs[1].args[0], obj, hf, H)
        ctx.require(ok_seq, "C16.O2", "wait(): waitForNotifierAlarm(h) then updateNotifierAlarm(h, .)", f"wait() on a live object makes the HAL calls {names} (path {cond or 'unconditional'}); expected waitForNotifierAlarm(h) ; updateNotifierAlarm(h, expiry)", site=site("wait"), key="C16.O2|seq")
        if ok_seq:
            t = hs[1].args[1]
            good = not isinstance(t, Ext) and Lin.of(t) == Lin.of(E).add(P)
            ctx.require(good, "C16.O2", "alarm re-armed at E + P", f"wait() re-arms the alarm at {t!r} (path {cond or 'unconditional'}); expected the stored expiry plus one period, with no clock read or HAL result in it - otherwise an overrun shifts the grid", site=site("wait"), key="C16.O2|grid")
        post = obj.fields.get(ef)
        ctx.require(not isinstance(post, Ext) and Lin.of(post) == Lin.of(E).add(P), "C16.O2", "stored expiry' == E + P", f"after wait() the stored expiry is {post!r}, expected E + P (path {cond or 'unconditional'})", site=site("wait"), key="C16.O2|store")
        ctx.require(not cond, "C16.O2", "wait() on a live object does not branch on time", f"wait() branches on {cond}: the alarm time depends on when the loop body finished", site=site("wait"), key="C16.O2|branch")
    # who may write the expiry
    writers = fn.effective_writers(K, ef)
    ctx.require(writers <= {"__init__", "wait"}, "C16.O2", f"expiry written only by {sorted(writers)}", f"the stored expiry is also written by {sorted(writers - {'__init__', 'wait'})}", site=site("wait"), key="C16.O2|writers")
    # ---- M1 typestate
    # a second instance starts its own grid, and entering the with-block does not touch the grid
    def two(it, w):
        a_ = it.call(K, [p], {})
        n0 = len(it.trace)
        b_ = it.call(K, [p], {})
        tr = it.trace[n0:]
        n1 = len(it.trace)
        r = it.call(it.getattr(b_, "__enter__"), [], {})
        return b_, tr, it.trace[n1:], r

    for q in fn.all_paths(ctx, two):
        if q.outcome != "return":
            continue
        b_, tr, tr_enter, r = q.value
        arm2 = [e for e in hal(tr) if e.name == "hal.updateNotifierAlarm"]
        now2 = [e.extra for e in tr if e.kind == "clock" and e.extra.tag[1] == "us"]
        good = len(arm2) == 1 and now2 and arm and _same(Lin.of(arm2[0].args[1]).add(now2[-1], -1).simplify(), Lin.of(arm[0].args[1]).add([e.extra for e in clocks if e.extra.tag[1] == "us"][-1], -1).simplify())
        ctx.require(bool(good), "C16.O1", "a second NotifierDelay arms its own first alarm at its own t0 + P", f"a second NotifierDelay instance arms its first alarm at {arm2[0].args[1] if arm2 else None!r}: not its own creation time plus one period (state shared between instances)", site=site("__init__"), key="C16.O1|second")
        ctx.require(not hal(tr_enter) and r is b_ and _same(b_.fields.get(ef), arm2[0].args[1] if arm2 else None), "C16.O2", "__enter__ returns the object and leaves the grid alone", f"entering the with-block makes HAL calls {[e.name for e in hal(tr_enter)]} / moves the expiry: the grid would start at the `with` statement instead of at creation", site=site("__enter__"), key="C16.O2|enter")
    seqs = [("free",), ("free", "wait"), ("free", "free"), ("__exit__", "wait"), ("__del__", "wait"), ("wait", "free", "wait", "free"), ("__exit__", "free")]
    for seq in seqs:
        def run_seq(it, w, seq=seq):
            obj = pre(it)
            out = []
            for m in seq:
                n0 = len(it.trace)
                args = [None, None, None] if m == "__exit__" else []
                r = it.call(it.getattr(obj, m), args, {})
                out.append((m, [e for e in hal(it.trace[n0:])], r))
            return obj, out

        for q in fn.all_paths(ctx, run_seq):
            if q.outcome != "return":
                if q.outcome == "raise" and any(a[0] == "lt0" and fn.syms_in(a[2]) == {p} and v for a, v, _ in q.path):
                    continue
                ctx.fail("C16.M1", f"sequence {seq} raises {fn.exc_name(q.value) if q.outcome == 'raise' else q.value}", site=site("free"), key=f"C16.M1|{seq}|raise")
                continue
            obj, out = q.value
            phase = "live"
            for m, hs, r in out:
                names = [e.name for e in hs]
                if phase == "live" and m in ("free", "__exit__", "__del__"):
                    good = names == ["hal.stopNotifier", "hal.cleanNotifier"] and all(_is(e.args[0], obj, hf, H) for e in hs)
                    ctx.require(good, "C16.M1", f"{m}() on a live object: stopNotifier(h); cleanNotifier(h)", f"{m}() on a live NotifierDelay makes the HAL calls {names}; expected stopNotifier(h) then cleanNotifier(h)", site=site("free"), key=f"C16.M1|release|{m}")
                    if m == "__exit__":
                        ctx.require(not _truthy(r), "C16.M1", "__exit__ does not swallow exceptions", f"__exit__ returns {r!r}: a true value swallows the exception leaving the with-block (the robot would not crash without FMS)", site=site("__exit__"), key="C16.M1|exit")
                    phase = "freed"
                elif phase == "freed":
                    ctx.require(not names, "C16.M1", f"{m}() on a freed object makes no HAL call", f"{m}() after free() still calls {names} (use of a released notifier handle / wait() does not return immediately)", site=site(m), key=f"C16.M1|freed|{m}")
                    if m == "__exit__":
                        ctx.require(not _truthy(r), "C16.M1", "__exit__ does not swallow exceptions", f"__exit__ returns {r!r} on a freed object: a true value swallows exceptions", site=site("__exit__"), key="C16.M1|exit2")
                elif m == "wait":
                    pass
        ctx.add("typestate_sequences", 1)
    ctx.sample({"wait": "E,P symbolic", "hal": ["waitForNotifierAlarm(h)", "updateNotifierAlarm(h, E+P)"]})


def grid_of_first_waits(ctx, n=3):
    """(ok, message): on one NotifierDelay object, alarm k+1 == alarm k + (first alarm - creation clock read) for the first
    n waits, with no other clock read or HAL result in it.  Used by C05 as the premise of 'one iteration per period'."""
    K = fn.anchor(ctx, MOD, "NotifierDelay")
    p = Sym("period", "num", uid=0)

    def run(it, w):
        obj = it.call(K, [p], {})
        n0 = len(it.trace)
        for _ in range(n):
            it.call(it.getattr(obj, "wait"), [], {})
        return it.trace[:n0], it.trace[n0:]

    msg = None
    paths = [q for q in fn.all_paths(ctx, run) if q.outcome == "return"]
    if not paths:
        return False, "NotifierDelay(period).wait() has no normal path"
    for q in paths:
        tr0, tr = q.value
        a0 = [e for e in hal(tr0) if e.name == "hal.updateNotifierAlarm"]
        us = [e.extra for e in tr0 if e.kind == "clock" and e.extra.tag[1] == "us"]
        arms = [e for e in hal(tr) if e.name == "hal.updateNotifierAlarm"]
        if len(a0) != 1 or not us or len(arms) != n:
            msg = msg or f"{n} waits re-arm the alarm {len(arms)} times"
            continue
        prev = a0[0].args[1]
        try:
            P = Lin.of(prev).add(us[-1], -1).simplify()
            for e in arms:
                if Lin.of(e.args[1]) != Lin.of(prev).add(P):
                    msg = msg or f"wait() re-arms the alarm at {e.args[1]!r}, not at the previous alarm {prev!r} plus one period {P!r}"
                prev = e.args[1]
        except TypeError:
            msg = msg or f"the alarm time {prev!r} is not an arithmetic term"
    return msg is None, msg


def bounded(ctx, K, p, site, hf, arm0, clocks0):
    """O2/M1 without an expiry field: one object, N waits in a row; alarm k must be alarm k-1 plus the period of the first alarm"""
    N = 4
    ctx.cov["mode"] = f"expiry not held in an object field: alarms decided for the first {N} waits of one object (t0 + k*P, k <= {N + 1}), not by induction"

    def run(it, w):
        obj = it.call(K, [p], {})
        n0 = len(it.trace)
        per = []
        for _ in range(N):
            n1 = len(it.trace)
            it.call(it.getattr(obj, "wait"), [], {})
            per.append(it.trace[n1:])
        return obj, it.trace[:n0], per

    paths = [q for q in fn.all_paths(ctx, run) if q.outcome == "return"]
    ctx.add("paths", len(paths))
    ctx.floor("paths of repeated wait()", len(paths), 1)
    for q in paths:
        obj, tr0, per = q.value
        a0 = [e for e in hal(tr0) if e.name == "hal.updateNotifierAlarm"]
        us = [e.extra for e in tr0 if e.kind == "clock" and e.extra.tag[1] == "us"]
        if len(a0) != 1 or not us:
            continue  # judged by O1
        prev = a0[0].args[1]
        P = Lin.of(prev).add(us[-1], -1).simplify()
        cond = [f"{a[2]!r}<0 is {v}" for a, v, _ in q.path if a[0] == "lt0" and fn.syms_in(a[2]) != {p}]
        ctx.require(not cond, "C16.O2", "wait() does not branch on time", f"wait() branches on {cond}: the alarm time depends on when the loop body finished", site=site("wait"), key="C16.O2|branch")
        for k, tr in enumerate(per):
            hs = hal(tr)
            names = [e.name for e in hs]
            ok_seq = names == ["hal.waitForNotifierAlarm", "hal.updateNotifierAlarm"] and all(isinstance(e.args[0], Ext) and "initializeNotifier" in e.args[0].path for e in hs)
            ctx.require(ok_seq, "C16.O2", f"wait #{k + 1}: waitForNotifierAlarm(h) then updateNotifierAlarm(h, .)", f"wait #{k + 1} on a live object makes the HAL calls {names}; expected waitForNotifierAlarm(h) ; updateNotifierAlarm(h, expiry)", site=site("wait"), key="C16.O2|seq")
            if not ok_seq:
                break
            t = hs[1].args[1]
            good = not isinstance(t, Ext) and not isinstance(prev, Ext) and Lin.of(t) == Lin.of(prev).add(P)
            ctx.require(good, "C16.O2", f"alarm {k + 2} == alarm {k + 1} + P", f"wait #{k + 1} re-arms the alarm at {t!r}; expected the previous alarm {prev!r} plus one period {P!r}, with no clock read or HAL result in it", site=site("wait"), key="C16.O2|grid")
            prev = t
    seqs = [("free",), ("free", "wait"), ("free", "free"), ("__exit__", "wait"), ("__del__", "wait"), ("wait", "free", "wait", "free"), ("__exit__", "free")]
    for seq in seqs:
        def run_seq(it, w, seq=seq):
            obj = it.call(K, [p], {})
            out = []
            for m in seq:
                n0 = len(it.trace)
                r = it.call(it.getattr(obj, m), [None, None, None] if m == "__exit__" else [], {})
                out.append((m, hal(it.trace[n0:]), r))
            return obj, out

        for q in fn.all_paths(ctx, run_seq):
            if q.outcome != "return":
                if q.outcome == "raise" and any(a[0] == "lt0" and fn.syms_in(a[2]) == {p} and v for a, v, _ in q.path):
                    continue
                ctx.fail("C16.M1", f"sequence {seq} raises {fn.exc_name(q.value) if q.outcome == 'raise' else q.value}", site=site("free"), key=f"C16.M1|{seq}|raise")
                continue
            obj, out = q.value
            phase = "live"
            for m, hs, r in out:
                names = [e.name for e in hs]
                if phase == "live" and m in ("free", "__exit__", "__del__"):
                    ctx.require(names == ["hal.stopNotifier", "hal.cleanNotifier"], "C16.M1", f"{m}() on a live object: stopNotifier(h); cleanNotifier(h)", f"{m}() on a live NotifierDelay makes the HAL calls {names}; expected stopNotifier(h) then cleanNotifier(h)", site=site("free"), key=f"C16.M1|release|{m}")
                    if m == "__exit__":
                        ctx.require(not _truthy(r), "C16.M1", "__exit__ does not swallow exceptions", f"__exit__ returns {r!r}: a true value swallows the exception leaving the with-block", site=site("__exit__"), key="C16.M1|exit")
                    phase = "freed"
                elif phase == "freed":
                    ctx.require(not names, "C16.M1", f"{m}() on a freed object makes no HAL call", f"{m}() after free() still calls {names}", site=site(m), key=f"C16.M1|freed|{m}")
        ctx.add("typestate_sequences", 1)


def _same(a, b):
    try:
        return Lin.of(a) == Lin.of(b)
    except TypeError:
        return a is b


def _is(arg, obj, hf, H):
    return isinstance(arg, Ext) and "initializeNotifier" in arg.path


def _truthy(r):
    return r is True or (isinstance(r, (int, str)) and not isinstance(r, bool) and bool(r)) or isinstance(r, (Cond,))
