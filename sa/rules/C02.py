"""C02 - timed states last their duration, run at least once, chain without drift."""
from ..interp import Interp
from ..smworld import StateSpec, build_class
from ..values import Obj, Sym
from . import sm, smcommon

EXPLANATION = (
    "Typestate closure of magicbot.StateMachine (see C01) with a timing monitor that is evaluated on every explored transition with "
    "*symbolic* stored times (one opaque symbol per heap slot), i.e. for all pre-state values at once: C02.T1 the engine leaves a "
    "state on its own only after a strict 'expiry < tm' comparison came out true on that path; C02.M1 a state that was entered but "
    "has not run is never left because of a time comparison; C02.T2 a state entered by expiry receives state_tm = tm - expiry of the "
    "predecessor (its clock starts at s+d, also across the cycle of a continuously engaged machine) and after an initial call the "
    "state's record holds expiry = entry time + the value the '<state>_duration' tunable has at that moment (a dashboard-edited "
    "value distinct from the decorator argument is planted); C02.T3 entry time and expiry are written only by an initial call of "
    "that state; C02.T4 the decorator creates '<state>_duration' as tunable(<decorator duration>, writeDefault=False, "
    "subtable='state') under exactly the name the engine reads.  The induction from these per-call facts to 'a chain lasts the sum "
    "of its durations and state_tm >= 0' is written in DESIGN.md section 7 (C02) and assumes a non-decreasing clock.  C02.T6 a state entered by request / engage() / fallback receives state_tm == 0 on that call (its clock starts at entry, so it lasts its duration from there); ISO: nothing is shared between two machines of one class."
)
RULE = "one case = one (typestate, client call, oracle resolution) transition; distinct = reachable typestates"
EXHAUSTIVE = True
OWNED = {"C02.M1", "C02.T1", "C02.T2", "C02.T3", "C02.T5", "C03.T2", "CRASH", "ISO"}
RENAME = {"C03.T2": "C02.T6"}


def check(ctx):
    ctx.assume("python", "clock", "client", "ntcore")
    ctx.rule("C02.T1", "engine-initiated transition inside an iteration => a strict 'expiry < tm' atom is true on the path")
    ctx.rule("C02.M1", "no engine transition/finish caused by a time comparison while the current state is entered-but-not-run")
    ctx.rule("C02.T2", "entered by expiry: state_tm = tm - expiry(predecessor); after an initial call: expiry(S) = entry(S) + current value of <S>_duration")
    ctx.rule("C02.T3", "entry time and expiry of a state are rewritten only by an initial call of that state")
    ctx.rule("C02.T5", "the machine start instant is re-based only in iterations whose state calls are all initial calls (premise of state_tm >= 0 and of 'every repetition lasts as long as the first')")
    ctx.rule("C02.T4", "<state>_duration is created by the decorator as tunable(duration, writeDefault=False, subtable='state') under the name the engine reads")
    ctx.rule("C02.T6", "a state entered by request / engage() / fallback starts its clock at that call (state_tm == 0), so it lasts its duration from entry")
    ctx.rule("ISO", "calls on one instance never change the heap reachable from another instance of the same class")
    res = smcommon.run_universes(ctx, "StateMachine", owned=OWNED)
    smcommon.report(ctx, res, OWNED, RENAME)
    ctx.floor("universes", len(res), 4)
    ctx.floor("state function calls with timing checked", sum(r["timing_checked"] for r in res), 10000)
    # C02.T4 on the class the decorators built
    n = 0
    for r in res:
        for spec in r["specs"]:
            if not spec.startswith("timed:"):
                continue
            name = spec.split(":")[1].split("[")[0]
            t = r["tunables"].get(name + "_duration")
            n += 1
            good = t is not None and t.get("default") in (f"$dur_{name}", "0") and t.get("writeDefault") == "False" and t.get("subtable") == "'state'"
            ctx.require(good, "C02.T4", f"{name}_duration = tunable($dur_{name}, writeDefault=False, subtable='state') in {r['universe']}",
                        f"duration tunable of timed state '{name}' is {t!r}; expected tunable(<decorator duration>, writeDefault=False, subtable='state') named '{name}_duration' [{r['universe']}]",
                        site=("magicbot/state_machine.py", 0, "_State.__set_name__"), key=f"C02.T4|{name}")
        # the reader's key: roles show which cell was added at entry
    ctx.floor("duration tunables", n, 8)
