"""C05 - MagicRobot runs mode code, components, feedbacks, robotPeriodic in fixed order."""
import re

from .. import fn, robot
from ..values import App, Lin, Sym
from . import robotrules as rr

EXPLANATION = (
    "Callback skeletons computed by abstract interpretation of the real startCompetition / _disabled / autonomous / _test / "
    "_operatorControl / selector.run / _enabled_periodic / _do_periodics on an abstract robot (start-up interpreted, component "
    "creation and mode discovery summarised as lists of 0..2 unknown user objects, exit flags volatile, every driver-station answer, "
    "both values of use_teleop_in_autonomous, simulation and non-simulation periodic lists).  C05.O1 the dispatch in "
    "startCompetition, evaluated on the six (enabled, autonomous, test) valuations, selects _disabled / autonomous / _test / "
    "_operatorControl as documented, and each mode loop continues exactly on the valuations that dispatch to it (driver-station "
    "predicate semantics of the trusted base); C05.O2 on every path the per-iteration callback sequence equals the specification "
    "skeleton: mode code, then execute() of every component once in list order, then every feedback, then robotPeriodic, and no "
    "execute() in disabled/test; C05.O4 the periodic list starts with robotPeriodic; C05.O5 every continuing iteration calls "
    "NotifierDelay.wait() exactly once on a delay armed from control_loop_wait_time (value flow, also through selector.run); "
    "C05.O6 each mode function publishes its documented literal to /robot/mode before its loop.  C05.O3 the component list is the "
    "creations of the type-hint loop in loop order; C05.O7 on a concrete two-level robot hierarchy (typing.get_type_hints modelled "
    "base-class-first as documented) the components are created in declaration order, base classes first.  A second period of every "
    "mode function is analysed on the robot the first one left behind.  C05.O8 the NotifierDelay that paces the loops re-arms each alarm at the previous alarm plus one period on its first waits (premise of one iteration per control_loop_wait_time; the inductive version is C16.O2)."
)
RULE = "one case = one path of a mode function (list lengths x driver-station answers x exits x configuration); compared token by token with the specification skeleton"
EXHAUSTIVE = True


def check(ctx):
    ctx.assume("python", "ds", "hal")
    for r, t in (("C05.O1", "dispatch table and mode-loop continue conditions agree on all six DS valuations"),
                 ("C05.O2", "per-iteration order: mode code, components in order, feedbacks, periodics; no execute in disabled/test"),
                 ("C05.O4", "periodic list starts with the bound robotPeriodic"),
                 ("C05.O5", "one NotifierDelay.wait() per continuing iteration; delay built from control_loop_wait_time"),
                 ("C05.O6", "mode literal published to /robot/mode before the loop")):
        ctx.rule(r, t)
    info, res = rr.analyse(ctx)
    keep = lambda k: k[0] in ("robot", "mode", "fbget", "wait", "iter") or (k[0] == "comp" and k[2] == "execute")
    n = rr.skeleton_check(ctx, res, keep, "C05.O2", "order of mode code / execute / feedbacks / robotPeriodic")
    ctx.floor("paths compared with the skeleton", n, 500)
    ctx.add("evaluations", n)
    worlds = []
    for func, w, per, pi in res:
        if not any(w is x for x, _ in worlds):
            worlds.append((w, per))
    # ---- O4
    for w, per in worlds:
        pt = rr.periodic_tokens(w, per)
        ctx.require(bool(pt) and pt[0] == ("robot", "robotPeriodic"), "C05.O4", f"periodic list {pt} starts with robotPeriodic", f"the periodic list built by robotInit is {pt}: robotPeriodic is not its first entry", site=("magicbot/magicrobot.py", 0, "MagicRobot.robotInit"), key="C05.O4")
    # ---- O1 dispatch
    table, np_ = rr.dispatch_table(ctx, info, worlds[0][0])
    ctx.add("paths", np_)
    want = {}
    for val in rr.VALUATIONS:
        E, A, T = val
        want[val] = "_disabled" if not E else ("autonomous" if A else ("_test" if T else "_operatorControl"))
    for val in rr.VALUATIONS:
        got = table.get(val, set())
        ctx.require(got == {want[val]}, "C05.O1", f"(enabled, autonomous, test)={val} -> {want[val]}", f"startCompetition dispatches (enabled, autonomous, test)={val} to {sorted(got) or 'nothing'}; expected {want[val]}", site=("magicbot/magicrobot.py", 0, "MagicRobot.startCompetition"), key=f"C05.O1|dispatch|{val}")
    # continue conditions of the mode loops
    for func in robot.MODE_FUNCS:
        cont, stop = [], []
        for f2, w, per, pi in res:
            if f2 != func or pi.outcome == "raise":
                continue
            atoms = rr.ds_atoms(pi)
            # classify by what happened at the last evaluated loop test
            ends = [t for t in pi.tokens if t[0] == "loopend"]
            if pi.iters >= 1:
                cont.append(atoms if pi.iters == 1 and pi.outcome != "abort" else None)
        # decide per valuation from single-iteration paths: first test continued; compare first-test atoms
        firsts = {}
        for f2, w, per, pi in res:
            if f2 != func or pi.outcome == "raise":
                continue
            first_atoms = first_test_atoms(pi)
            if first_atoms is None:
                continue
            firsts.setdefault(pi.complete >= 1, []).append(first_atoms)
        for val in rr.VALUATIONS:
            c = any(rr.consistent(a, val) for a in firsts.get(True, []))
            s_ = any(rr.consistent(a, val) and a for a in firsts.get(False, []))
            expected = want[val] == func
            if expected:
                good = c and not s_
            else:
                good = s_ and not c
            ctx.require(good, "C05.O1", f"{func} loop {'continues' if expected else 'exits'} on {val}", f"{func}(): with (enabled, autonomous, test)={val} the mode loop {'can continue' if c else 'cannot continue'} and {'can exit' if s_ else 'cannot exit'} on the driver-station test, but startCompetition {'dispatches' if expected else 'does not dispatch'} this state to {func} - the robot would {'leave' if expected else 'stay in'} the wrong mode", site=("magicbot/magicrobot.py", 0, func), key=f"C05.O1|loop|{func}|{val}")
    # ---- O5 / O6
    cwt = Sym("cfg:control_loop_wait_time", "num", uid=0)
    seen = set()
    for func, w, per, pi in res:
        if pi.outcome == "raise":
            continue
        toks = pi.tokens
        names = [t for t in toks if t[0] == "modename"]
        first_iter = next((i for i, t in enumerate(toks) if t[0] == "iter"), len(toks))
        pre = [t for t in toks[:first_iter] if t[0] == "modename"]
        lit = MODE = rr.MODE_OF[func]
        good = len(pre) >= 1 and all(t[1] == lit for t in names) and "getTable('/robot')" in pre[0][2]
        if (func, "O6", good) not in seen:
            seen.add((func, "O6", good))
            ctx.require(good, "C05.O6", f"{func} publishes '{lit}' to /robot/mode before its loop", f"{func}() publishes {[t[1] for t in names]} to {[t[2] for t in names][:1]} (expected '{lit}' on /robot/mode before the loop)", site=("magicbot/magicrobot.py", 0, func), key=f"C05.O6|{func}")
        arms = [t for t in toks if t[0] == "arm"]
        waits = [j for j, t in enumerate(toks) if t[0] == "wait"]
        if waits:
            first_arm = next((j for j, t in enumerate(toks) if t[0] == "arm"), None)
            fresh = first_arm is not None and first_arm < waits[0]
            if (func, "O5f", fresh) not in seen:
                seen.add((func, "O5f", fresh))
                ctx.require(fresh, "C05.O5", f"{func}: the loop delay is armed in this call before its first wait()", f"{func}(): the first wait() of the mode loop is on a delay that was not armed in this call of {func}() (a delay object kept from an earlier mode is still on its old time grid: the first iterations run back to back)", site=("magicbot/magicrobot.py", 0, func), key=f"C05.O5|fresh|{func}")
        if pi.complete >= 1 and arms:
            v = arms[0][1]
            flow = cwt in fn.syms_in(v) if not isinstance(v, (int, str, type(None))) else False
            if (func, "O5", flow) not in seen:
                seen.add((func, "O5", flow))
                ctx.require(flow, "C05.O5", f"{func}: loop delay armed from control_loop_wait_time ({v!r})", f"{func}(): the NotifierDelay of the mode loop is armed at {v!r}, which does not depend on control_loop_wait_time", site=("magicbot/magicrobot.py", 0, func), key=f"C05.O5|{func}")
    # ---- O3 component order = order of the type-hint loop
    ctx.rule("C05.O3", "the component list is the creations of the type-hint loop, in loop order")
    info2, cpaths = rr.create_paths(ctx)
    ctx.add("paths", len(cpaths))
    comp_field = None
    for func, w, per, pi in res:
        if pi.roles.get("comp"):
            comp_field = pi.roles["comp"]
    bad = set()
    nchk = 0
    for p in cpaths:
        if p.outcome != "return":
            continue
        lst = p.value.fields.get(comp_field)
        created = [e[1] for e in rr.create_events(p) if e[0] == "create"]
        items = getattr(lst, "items", None)
        if items is None:
            bad.add(f"after _create_components the component list robot.{comp_field} is {lst!r}, not the list of created components")
            continue
        got = []
        for it_ in items:
            c = it_[1] if isinstance(it_, tuple) and len(it_) == 2 else None
            m = re.match(r"annotated_type#(\d+)\(", getattr(c, "path", "") or "")
            nm = it_[0] if isinstance(it_, tuple) else None
            got.append((int(m.group(1)) if m else None, getattr(nm, "name", None)))
        want = [(c, f"attr#{c}") for c in created]
        nchk += 1
        ro = [e for e in p.trace if e.kind == "reorder"]
        if ro and len(created) >= 2:
            bad.add(f"_create_components reorders a list of components ({ro[0].name}() with a key that depends on the components): they would not run in declaration order")
        if got != want:
            bad.add(f"the component list holds (creation index, name) {got} but the components were created in the order {want}: execute()/on_enable()/on_disable() would not run in declaration order")
    for b in sorted(bad):
        ctx.fail("C05.O3", b, site=("magicbot/magicrobot.py", 0, "MagicRobot._create_components"), key=f"C05.O3|{b[:40]}")
    if not bad:
        ctx.ok("C05.O3", f"component list == creations in type-hint order on {nchk} start-up paths")
    hierarchy_order(ctx, info2)
    # ---- O8 premise of "exactly one iteration per control_loop_wait_time": the delay object keeps its time grid
    from . import C16 as _c16

    ctx.rule("C05.O8", "the NotifierDelay that paces every mode loop re-arms each alarm at the previous alarm plus one period (no drift)")
    okg, why = _c16.grid_of_first_waits(ctx)
    ctx.require(okg, "C05.O8", "NotifierDelay: alarm k+1 == alarm k + period on the first waits of one object", f"the delay that paces the mode loops drifts: {why} - iterations are no longer one per control_loop_wait_time of FPGA time", site=("robotpy_ext/misc/precise_delay.py", 0, "NotifierDelay.wait"), key="C05.O8|grid")
    ctx.floor("start-up paths checked for component order", nchk, 100)
    ctx.sample({"function": res[0][0], "tokens": [rr.short(t) for t in res[-1][3].tokens if rr.key(t)][:30]})


def hierarchy_order(ctx, info):
    """C05.O7: on a concrete two-level robot hierarchy (base robot class declares drive, arm; the derived class declares
    shooter, intake) the components are created - and therefore executed - in the order of typing.get_type_hints(cls):
    base classes first, each class in declaration order."""
    from ..closure import clone
    from ..values import ClassV, DictV, Ext

    ctx.rule("C05.O7", "inherited robot classes: components are created in declaration order, base classes first")
    info_, worlds = rr.prepare(ctx)
    w = clone(worlds[0][0])
    r = w["robot"]
    UR = r.cls
    names = [("drive", "arm"), ("shooter", "intake")]
    types = {n: Ext(f"Component_{n}", "user", role="class") for grp in names for n in grp}
    base = ClassV("BaseRobot", [UR], {"__annotations__": DictV({n: types[n] for n in names[0]}), "__doc__": None}, UR.module, None, "BaseRobot", mutable=False)
    base.annotations = {n: types[n] for n in names[0]}
    top = ClassV("SeasonRobot", [base], {"__annotations__": DictV({n: types[n] for n in names[1]}), "__doc__": None}, UR.module, None, "SeasonRobot", mutable=False)
    top.annotations = {n: types[n] for n in names[1]}
    r.cls = top
    want = [n for grp in names for n in grp]

    class H(rr.CreateHooks):
        def decide(self, it, atom, node):
            if atom[0] == "hasattr" and atom[-1] in want:
                return False  # the robot has not set these attributes itself
            return rr.CreateHooks.decide(self, it, atom, node)

        def ext_call(self, it, fn_, args, kwargs, node):
            if fn_.path == "typing.get_type_hints" and args and isinstance(args[0], ClassV) and args[0] in (top, base):
                d = {}
                for c in reversed(args[0].mro):
                    for k, v in getattr(c, "annotations", {}).items():
                        if isinstance(v, Ext):
                            d[k] = v
                return DictV(d)
            return rr.CreateHooks.ext_call(self, it, fn_, args, kwargs, node)

    def run(it, world):
        rob = world["robot"]
        it.generic_loop_fixed = 0  # no feedbacks / autonomous modes: only the order of creation is looked at
        it.call(it.getattr(rob, "_create_components"), [], {})
        return rob

    paths = fn.all_paths(ctx, run, hooks=lambda: H(info), world=w, max_paths=50000)
    ctx.add("paths", len(paths))
    site = ("magicbot/magicrobot.py", info["MR"].lookup("_create_components")[1].node.lineno, "MagicRobot._create_components")
    n = 0
    bad = None
    for p in paths:
        if p.outcome != "return":
            continue
        created = [e.name[len("Component_"):].split("(")[0] for e in p.trace if e.kind == "user" and e.name.startswith("Component_") and "." not in e.name]
        n += 1
        order = [want.index(c) for c in created if c in want]
        if order != sorted(order) or len(set(created)) != len(created):
            bad = bad or f"a robot class hierarchy (base class declares {list(names[0])}, derived class declares {list(names[1])}) creates its components in the order {created}; declaration order, base classes first, is {want}"
    ctx.floor("start-up paths of the two-level robot hierarchy that create all four components", sum(1 for p in paths if p.outcome == "return"), 20)
    ctx.require(bad is None, "C05.O7", f"two-level robot hierarchy: components created in the order {want} on {n} paths", bad or "", site=site, key="C05.O7|order")


def first_test_atoms(pi):
    """driver-station predicates decided before the first loop iteration body (the first loop test)"""
    out = []
    seen_iter = 0
    # path atoms are in decision order; cut at the first callback of the first iteration
    cut_site = None
    for t in pi.tokens:
        if t[0] == "iter":
            seen_iter += 1
    n_ds = 0
    atoms = []
    for a, v, site in pi.p.path:
        if a[0] == "truthy":
            desc = str(a[-1])
            m = re.search(r"\.(is[A-Z]\w+)\(\)$", desc)
            if m and m.group(1) in rr.DS_PRED and "FMS" not in desc and "Simulation" not in desc:
                atoms.append((m.group(1), v, site))
    if not atoms:
        return None
    # atoms of the first test: those decided at the same source line(s) before any repetition of a line
    first = []
    lines = set()
    for n, v, site in atoms:
        k = (n, site[1] if site else None)
        if k in lines:
            break
        lines.add(k)
        first.append((n, v))
    return first
