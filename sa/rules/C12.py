"""C12 - malformed StateMachine definitions are rejected when defined or instantiated."""
import itertools

from .. import fn
from ..framework import AnalysisError
from ..interp import AbsRaise, Interp, OBJECT_ATTRS
from ..smworld import POS, user_fn
from ..values import ClassV, DictV, ListV, Obj, Sym

EXPLANATION = (
    "Abstract interpretation of the real validation code (magicbot/state_machine.py: _State.__init__, __set_name__, __call__, "
    "_get_class_members, StateMachine._build_states) on families of abstract class definitions: C12.V1 for every name bound or "
    "declared in the StateMachine class body (computed from the syntax tree: methods, properties, assignments, annotations, "
    "private names, plus object's attributes) each of the three decorators raises InvalidStateName; C12.V2 all 16 legal ordered "
    "parameter subsets are accepted and every signature with a first parameter other than self, a *args / **kwargs / keyword-only "
    "parameter (also when it is *named* tm, state_tm or initial_call) or a foreign parameter name is rejected with ValueError, on "
    "every decorator; C12.V3 binding a state under another attribute name raises InvalidStateName, defining it outside a "
    "StateMachine raises TypeError; C12.V4 calling a state raises IllegalCallError; C12.M1 for a family of single, linear and diamond "
    "inheritance layouts with overriding (first / default / plain / non-state redefinitions) instantiation succeeds iff exactly one "
    "effective state (Python attribute resolution order) is first and at most one is default, otherwise raises NoFirstStateError / "
    "MultipleFirstStatesError / MultipleDefaultStatesError; C12.O1 for every accepted layout state_names is exactly the effective "
    "states, base classes first in definition order, and state_descriptions is aligned to it.  Illegal parameter names include fragments and near misses of the allowed ones (state, t, initial, call, _tm, tm_, Tm ...)."
)
RULE = "one case = one abstract class definition (decorator, name, signature or inheritance layout); distinct = distinct definitions"
EXHAUSTIVE = False
MOD = "magicbot.state_machine"
ALLOWED = ("tm", "state_tm", "initial_call")


def configure(it):
    it.record_ctor.add("tunable")
    it.tunable_cells = True


def decorate(it, mod, kind, f, first=False):
    if kind == "state":
        if first:
            return it.call(it.call(mod.ns["state"], [], {"first": True}), [f], {})
        return it.call(mod.ns["state"], [f], {})
    if kind == "timed":
        return it.call(it.call(mod.ns["timed_state"], [], {"duration": Sym("d", "num", tag="duration", uid=0), "first": first}), [f], {})
    if kind == "default":
        return it.call(mod.ns["default_state"], [f], {})
    raise ValueError(kind)


def outcome(fnc):
    try:
        return ("ok", fnc())
    except AbsRaise as ar:
        return ("raise", fn.exc_name(ar))


def check(ctx):
    ctx.assume("python", "inspect")
    for r, t in (("C12.V1", "a state named like any attribute StateMachine binds or declares is rejected with InvalidStateName"),
                 ("C12.V2", "legal signatures accepted; bad first parameter, *args, **kwargs, keyword-only, foreign names rejected with ValueError"),
                 ("C12.V3", "alias binding -> InvalidStateName; non-StateMachine owner -> TypeError"),
                 ("C12.V4", "calling a state -> IllegalCallError"),
                 ("C12.M1", "instantiation succeeds iff exactly one effective first and at most one effective default state; right exception otherwise"),
                 ("C12.O1", "state_names == effective states, base classes first in definition order; descriptions aligned")):
        ctx.rule(r, t)
    ctx.used("magicbot/state_machine.py")
    it = Interp(ctx.program)
    configure(it)
    mod = it.module(MOD)
    SM = mod.ns.get("StateMachine")
    if not isinstance(SM, ClassV):
        raise AnalysisError("anchor magicbot.state_machine.StateMachine not found")
    site = (mod.filename, mod.ns["_State"].node.lineno if isinstance(mod.ns.get("_State"), ClassV) else 1, "_State.__init__")
    kinds = ("state", "timed", "default")
    # ---- V1
    names = [n for n in SM.ns if isinstance(n, str) and n not in ("__annotations__",)] + list(SM.annotations) + ["__init__", "__class__", "__eq__", "__dict__"]
    names = list(dict.fromkeys(names))
    ctx.floor("StateMachine attribute names", len(names), 15)
    for n in names:
        for kind in kinds:
            o = outcome(lambda: decorate(it, mod, kind, user_fn(n, ())))
            ctx.require(o == ("raise", "InvalidStateName"), "C12.V1", f"@{kind} def {n}: InvalidStateName", f"a state named '{n}' (an attribute StateMachine {'declares' if n in SM.annotations and n not in SM.ns else 'defines'}) is {'accepted' if o[0] == 'ok' else 'rejected with ' + o[1]} by @{kind}; expected InvalidStateName at class-definition time", site=site, key=f"C12.V1|{n}")
    ctx.add("evaluations", len(names) * 3)
    # ---- V2
    legal = [()]
    for r in (1, 2, 3):
        legal += list(itertools.permutations(ALLOWED, r))
    n_ill = 0
    for sig in legal:
        for kind in kinds:
            o = outcome(lambda: decorate(it, mod, kind, user_fn("s", sig)))
            ctx.require(o[0] == "ok", "C12.V2", f"@{kind} def s(self, {', '.join(sig)}) accepted", f"the legal signature (self, {', '.join(sig)}) is rejected by @{kind} with {o[1] if o[0] == 'raise' else ''}", site=site, key=f"C12.V2|legal|{kind}")
        free = [p for p in ALLOWED if p not in sig]
        illegal = []
        base = [("self", POS)] + [(p, POS) for p in sig]
        for nm in ["args"] + free:
            illegal.append((f"*{nm}", base + [(nm, "VAR_POSITIONAL")]))
        for nm in ["kwargs"] + free:
            illegal.append((f"**{nm}", base + [(nm, "VAR_KEYWORD")]))
        for nm in ["opt"] + free:
            illegal.append((f"*, {nm}", base + [(nm, "KEYWORD_ONLY")]))
        for pos in range(1, len(base) + 1):
            illegal.append((f"foreign name at {pos}", base[:pos] + [("speed", POS)] + base[pos:]))
        # names that are fragments / near misses of the allowed ones (a check by substring or prefix would accept them)
        for nm in ("state", "t", "m", "initial", "call", "_tm", "state_t", "elf", "Tm", "tm_"):
            illegal.append((f"foreign name '{nm}'", base + [(nm, POS)]))
        illegal.append(("first parameter not self", [("this", POS)] + base[1:]))
        if sig:
            illegal.append(("no self", base[1:]))
        for label, params in illegal:
            for kind in kinds:
                n_ill += 1
                o = outcome(lambda: decorate(it, mod, kind, user_fn("s", (), extra_params=params)))
                shown = ", ".join(("*" if k == "VAR_POSITIONAL" else "**" if k == "VAR_KEYWORD" else "*, " if k == "KEYWORD_ONLY" else "") + p for p, k in params)
                ctx.require(o == ("raise", "ValueError"), "C12.V2", f"@{kind} def s({shown}) rejected", f"the illegal signature ({shown}) [{label}] is {'accepted' if o[0] == 'ok' else 'rejected with ' + o[1]} by @{kind}; expected ValueError at class-definition time", site=site, key=f"C12.V2|{label.split(' at ')[0]}|{kind}")
    ctx.add("evaluations", n_ill + 48)
    ctx.floor("illegal signatures", n_ill, 300)
    # ---- V3 / V4
    w = decorate(it, mod, "state", user_fn("real_name", ()))
    o = outcome(lambda: it.finish_class(ClassV("M", [SM], {"__annotations__": DictV(), "alias": w}, mod, None, "M", mutable=True)))
    ctx.require(o == ("raise", "InvalidStateName"), "C12.V3", "alias binding rejected", f"a state bound under a different attribute name is {'accepted' if o[0] == 'ok' else 'rejected with ' + o[1]}; expected InvalidStateName", site=site, key="C12.V3|alias")
    w2 = decorate(it, mod, "state", user_fn("s", ()))
    o = outcome(lambda: it.finish_class(ClassV("Plain", [], {"__annotations__": DictV(), "s": w2}, mod, None, "Plain", mutable=True)))
    ctx.require(o == ("raise", "TypeError"), "C12.V3", "state outside a StateMachine rejected", f"a state defined in a class that is not a StateMachine is {'accepted' if o[0] == 'ok' else 'rejected with ' + o[1]}; expected TypeError", site=site, key="C12.V3|owner")
    for kind in kinds:
        wk = decorate(it, mod, kind, user_fn("s", ()))
        for args in ([], [Sym("x", "any")]):
            o = outcome(lambda: it.call(wk, args, {}))
            ctx.require(o == ("raise", "IllegalCallError"), "C12.V4", f"calling a @{kind} state raises IllegalCallError", f"calling a @{kind} state directly {'returns' if o[0] == 'ok' else 'raises ' + o[1]}; expected IllegalCallError", site=site, key=f"C12.V4|{kind}")
    # ---- M1 / O1 inheritance layouts
    n_lay, n_ok = layouts(ctx, mod, SM)
    ctx.add("evaluations", n_lay)
    ctx.cov["layouts"] = n_lay
    ctx.cov["layouts_accepted"] = n_ok
    ctx.cov["distinct_nontrivial"] = n_lay + n_ill + len(names) * 3
    ctx.floor("inheritance layouts", n_lay, 150)
    ctx.floor("accepted layouts (state_names checked)", n_ok, 20)


SLOT = ("absent", "plain", "first", "default", "nonstate")


def layouts(ctx, mod, SM):
    """diamond  D(L, R), L(Base), R(Base)  plus its degenerate single / linear forms"""
    site = (mod.filename, SM.lookup("_build_states")[1].node.lineno, "StateMachine._build_states")
    quick = ctx.tier == "quick"
    base_opts = [dict(a=x, b=y) for x in ("plain", "first", "default") for y in (("absent", "first") if quick else ("absent", "plain", "first"))]
    l_opts = [dict(a=x, b=y) for x in (("absent", "plain") if quick else ("absent", "plain", "first")) for y in ("absent", "default")]
    r_opts = [dict(a=x, b=y) for x in ("absent", "plain", "first", "nonstate") for y in (("absent",) if quick else ("absent", "plain"))]
    d_opts = [dict(a=x, b=y, c=z) for x in ("absent", "plain") for y in ("absent", "first") for z in (("absent", "first") if quick else ("absent", "plain", "first"))]
    shapes = [("diamond", ("Base", "L", "R", "D")), ("linear", ("Base", "R", "D")), ("single", ("D",))]
    n = n_ok = 0
    for shape, classes in shapes:
        for bo in (base_opts if "Base" in classes else [None]):
            for lo in (l_opts if "L" in classes else [None]):
                for ro in (r_opts if "R" in classes else [None]):
                    for do in d_opts:
                        n += 1
                        it = Interp(ctx.program)
                        configure(it)
                        defs = {"Base": bo, "L": lo, "R": ro, "D": do}
                        made = {}

                        def mk(cname, bases):
                            ns = {"__annotations__": DictV(), "__doc__": None}
                            for nm, slot in defs[cname].items():
                                if slot == "absent":
                                    continue
                                if slot == "nonstate":
                                    ns[nm] = 7
                                    continue
                                f = user_fn(nm, (), doc=f"doc of {cname}.{nm}")
                                ns[nm] = decorate(it, mod, "default" if slot == "default" else "state", f, first=slot == "first")
                            c = ClassV(cname, bases, ns, mod, None, cname, mutable=True)
                            it.finish_class(c)
                            made[cname] = c
                            return c

                        try:
                            if shape == "diamond":
                                B = mk("Base", [SM])
                                D = mk("D", [mk("L", [B]), mk("R", [B])])
                            elif shape == "linear":
                                D = mk("D", [mk("R", [mk("Base", [SM])])])
                            else:
                                D = mk("D", [SM])
                        except AbsRaise as ar:
                            ctx.fail("C12.M1", f"defining layout {shape} {defs} raises {fn.exc_name(ar)}", site=site, key="C12.M1|define")
                            continue
                        # oracle: Python attribute resolution
                        order = []
                        for c in reversed(D.mro):
                            for nm in c.ns:
                                if nm in ("a", "b", "c") and nm not in order:
                                    order.append(nm)
                        eff = []
                        for nm in order:
                            _, v = D.lookup(nm)
                            if isinstance(v, Obj):
                                owner = [c.name for c in D.mro if nm in c.ns][0]
                                eff.append((nm, defs[owner][nm], owner))
                        firsts = sum(1 for e in eff if e[1] == "first")
                        defaults = sum(1 for e in eff if e[1] == "default")
                        if firsts > 1:
                            exp = ("raise", "MultipleFirstStatesError")
                        elif defaults > 1:
                            exp = ("raise", "MultipleDefaultStatesError")
                        elif firsts == 0:
                            exp = ("raise", "NoFirstStateError")
                        else:
                            exp = ("ok",)
                        if n % 3 == 0:
                            # second use: instantiate the bases first (when they are valid machines themselves)
                            for bname in ("Base", "L", "R"):
                                if bname in made:
                                    outcome(lambda: it.call(made[bname], [], {}))
                        o = outcome(lambda: it.call(D, [], {}))
                        desc = f"{shape}: " + "; ".join(f"{c}({', '.join(f'{k}={v}' for k, v in defs[c].items() if v != 'absent')})" for c in classes)
                        if exp[0] == "raise" and firsts > 1 and defaults > 1:
                            good = o[0] == "raise" and o[1] in ("MultipleFirstStatesError", "MultipleDefaultStatesError")
                        else:
                            good = o[:len(exp)] == exp if exp[0] == "raise" else o[0] == "ok"
                        if not good:
                            ctx.fail("C12.M1", f"layout [{desc}] has {firsts} effective first and {defaults} effective default state(s): instantiation {'succeeds' if o[0] == 'ok' else 'raises ' + o[1]}, expected {'success' if exp[0] == 'ok' else exp[1]}", site=site, key=f"C12.M1|{exp[-1]}|{o[-1] if o[0] == 'raise' else 'ok'}")
                            continue
                        if exp[0] != "ok":
                            continue
                        n_ok += 1
                        tn, td = D.ns.get("state_names"), D.ns.get("state_descriptions")
                        want_n = [e[0] for e in eff]
                        want_d = [f"doc of {e[2]}.{e[0]}" for e in eff]
                        got_n = tn.fields.get("default").items if isinstance(tn, Obj) and isinstance(tn.fields.get("default"), ListV) else None
                        got_d = td.fields.get("default").items if isinstance(td, Obj) and isinstance(td.fields.get("default"), ListV) else None
                        if got_n != want_n or got_d != want_d:
                            ctx.fail("C12.O1", f"layout [{desc}]: state_names={got_n} state_descriptions={got_d}; expected {want_n} / {want_d} (effective states, base classes first in definition order, descriptions aligned)", site=site, key="C12.O1|names")
                        elif n_ok <= 3:
                            ctx.sample({"layout": desc, "state_names": want_n, "outcome": "instantiated"})
    if not any(o[0] == "C12.M1" and not o[2] for o in ctx.obligations):
        ctx.ok("C12.M1", f"first/default multiplicity verdict correct on all {n} inheritance layouts")
    if not any(o[0] == "C12.O1" and not o[2] for o in ctx.obligations):
        ctx.ok("C12.O1", f"state_names / state_descriptions correct on all {n_ok} accepted layouts")
    return n, n_ok
