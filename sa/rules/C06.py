"""C06 - component lifecycle: setup once, on_enable/on_disable bracket every execute."""
import ast

from .. import fn, robot
from ..interp import Interp
from . import robotrules as rr

EXPLANATION = (
    "C06.O1: abstract interpretation of the real _create_components (type-hint loop, creation, tunables, injection, reset defaults, "
    "feedback collection; helper functions opaque, unknown numbers of components and modes): on every path every setup() comes "
    "after all creations and all injection/tunable/reset work of all components and modes, each created component's setup() is "
    "called exactly once when it has one, and no other user callback happens in the function; call graph: _create_components is "
    "called only from robotInit, robotInit only from startCompetition, outside any loop.  C06.O2/O3: callback skeletons of the "
    "four mode functions (see C05) projected on component and hook events: on_enable of every component in list order precedes the "
    "mode's init hook, the autonomous mode's on_enable and every execute(); every exit of an enabled mode function (driver-station "
    "change, endCompetition flag, loop bound) passes on_disable of every component; _disabled starts with on_disable before "
    "disabledInit; _test touches no component; enable, execute and disable iterate one and the same list; the same skeletons hold on the "
    "variant in which all components are instances of one class (anything keyed by type(component)).  C06.O4: endCompetition "
    "sets the robot's and the selector's exit flag and every mode loop has an exit path on its flag."
)
RULE = "one case = one path of _create_components / of a mode function; compared with the specification skeleton"
EXHAUSTIVE = True


def check(ctx):
    ctx.assume("python", "ds")
    for r, t in (("C06.O1", "setup() after all creation+injection, once per component, nothing else called; single call site chain"),
                 ("C06.O2", "enable loop before init hook, mode.on_enable and any execute"),
                 ("C06.O3", "every exit after the enable loop passes the disable loop; _disabled disables first; _test has no component callback"),
                 ("C06.O4", "endCompetition sets both exit flags; every mode loop can exit on its flag")):
        ctx.rule(r, t)
    # ---- O1
    info, paths = rr.create_paths(ctx)
    ctx.add("paths", len(paths))
    site = ("magicbot/magicrobot.py", info["MR"].lookup("_create_components")[1].node.lineno, "MagicRobot._create_components")
    n = 0
    problems = set()
    for p in paths:
        if p.outcome != "return":
            continue
        evs = rr.create_events(p)
        n += 1
        setups = [i for i, e in enumerate(evs) if e[0] == "setup"]
        work = [i for i, e in enumerate(evs) if e[0] == "create" or e[0] == "dictupdate" or (e[0] == "phase" and e[1] in ("setup_tunables", "find_injections", "get_injection_requests", "collect_resets"))]
        if setups and work and min(setups) < max(work):
            late = evs[max(work)]
            problems.add(("order", f"setup() is called before all components exist / are injected: {evs[min(setups)][1]} runs before {late[0]} {late[1]}"))
        comp_setups = [i for i, e in enumerate(evs) if e[0] == "setup" and e[1].startswith("annotated_type#")]
        mode_setups = [i for i, e in enumerate(evs) if e[0] == "setup" and not e[1].startswith("annotated_type#")]
        if comp_setups and mode_setups and min(mode_setups) < max(comp_setups):
            problems.add(("modefirst", "an autonomous mode's setup() runs before every component's setup() has run (component setup must precede any other callback)"))
        if any(e.kind == "reorder" for e in p.trace) and len([e for e in evs if e[0] == "create"]) >= 2:
            problems.add(("reorder", "_create_components reorders the list of components by a key that depends on the components: setup() / on_enable() / on_disable() would not run in declaration order"))
        other = [e for e in evs if e[0] == "usercall"]
        for e in other:
            problems.add(("other", f"unexpected user callback {e[1]} during component creation"))
        created = [e[1] for e in evs if e[0] == "create"]
        for c in created:
            cnt = sum(1 for e in evs if e[0] == "setup" and e[1].startswith(f"annotated_type#{c}("))
            absent = any(a[0] == "isnone" and f"annotated_type#{c}(" in str(a[-1]) and str(a[-1]).endswith(".setup") and v for a, v, _ in p.path)
            if cnt != (0 if absent else 1):
                problems.add(("count", f"setup() of a created component is called {cnt} times (expected {'0: it has none' if absent else 'exactly once'})"))
    ctx.floor("paths of _create_components", n, 100)
    for kind, msg in sorted(problems):
        ctx.fail("C06.O1", msg, site=site, key=f"C06.O1|{kind}")
    if not problems:
        ctx.ok("C06.O1", f"setup placement correct on all {n} paths of _create_components")
    # call graph
    callers = {"_create_components": [], "robotInit": []}
    for m in ctx.program.modules.values():
        for node in ast.walk(m.tree):
            if isinstance(node, (ast.FunctionDef,)):
                for sub in ast.walk(node):
                    if isinstance(sub, ast.Call) and isinstance(sub.func, ast.Attribute) and sub.func.attr in callers:
                        in_loop = any(isinstance(l, (ast.For, ast.While)) and any(x is sub for x in ast.walk(l)) for l in ast.walk(node))
                        callers[sub.func.attr].append((m.filename, node.name, in_loop))
    cc = callers["_create_components"]
    ctx.require(len(cc) == 1 and cc[0][1] == "robotInit" and not cc[0][2], "C06.O1", "_create_components called once, from robotInit, outside loops", f"_create_components is called from {cc}; expected exactly one call in robotInit outside any loop (setup would run more than once)", site=site, key="C06.O1|callsite")
    rc = [c for c in callers["robotInit"] if c[0].startswith("magicbot/")]
    ctx.require(len(rc) == 1 and rc[0][1] == "startCompetition" and not rc[0][2], "C06.O1", "robotInit called once, from startCompetition, outside its loop", f"robotInit is called from {rc}; expected exactly one call in startCompetition outside the mode loop", site=site, key="C06.O1|robotInit")
    # ---- O2 / O3
    info, res = rr.analyse(ctx)
    keep = lambda k: k[0] in ("comp", "mode") or (k[0] == "robot" and k[1].endswith("Init"))
    nn = rr.skeleton_check(ctx, res, keep, "C06.O3", "component on_enable / execute / on_disable bracket and init hooks")
    ctx.add("evaluations", nn)
    infos, ress = rr.analyse(ctx, shared_class=True)
    ns = rr.skeleton_check(ctx, ress, keep, "C06.O3", "component bracket when two components are instances of the same class")
    ctx.floor("paths with two components of one class", ns, 20)
    ctx.add("same_class_paths", ns)
    infof, resf = rr.analyse(ctx, fault=True)
    nf = rr.fault_skeleton_check(ctx, resf, keep, "C06.O3", "component on_enable / execute / on_disable bracket")
    ctx.floor("single-fault paths", nf, 40)
    fields = set()
    for func, w, per, pi in res:
        for t in pi.tokens:
            if t[0] == "cb" and t[1] == "comp":
                fields.add((t[3], t[4]))
    lists = {f for _, f in fields}
    ctx.require(len(lists) == 1, "C06.O2", f"on_enable / execute / on_disable all iterate the same list {sorted(lists)}", f"component callbacks iterate different lists: {sorted(fields)}", site=("magicbot/magicrobot.py", 0, "MagicRobot"), key="C06.O2|lists")
    # ---- O4
    it = Interp(ctx.program, hooks=robot.RobotHooks(info))
    w = res[0][1]
    from ..closure import clone

    w2 = clone(w)
    r = w2["robot"]
    it.hooks = None
    it.generic_loop_fixed = 0
    it.call(it.getattr(r, "endCompetition"), [], {})

    def run_end(itp, ww):
        itp.generic_loop_fixed = 2
        n0 = len(itp.trace)
        itp.call(itp.getattr(ww["robot"], "endCompetition"), [], {})
        return [e for e in itp.trace[n0:] if e.kind == "user" and robot.is_callback_path(e.name)]

    cbs = []
    for p in fn.all_paths(ctx, run_end, hooks=lambda: robot.RobotHooks(info), world=w):
        if p.outcome == "return":
            cbs += p.value
    ctx.require(not cbs, "C06.O4", "endCompetition only requests the exit: it calls no component or robot callback", f"endCompetition() itself calls {sorted({e.name for e in cbs})[:3]}: when it is requested from inside an iteration the rest of that iteration still runs execute() on components that were already disabled", site=("magicbot/magicrobot.py", 0, "MagicRobot.endCompetition"), key="C06.O4|callbacks")
    flags = {k: r.fields.get(k) for k in info["volatile"]["MagicRobot"]}
    sel = [v for v in r.fields.values() if hasattr(v, "cls") and v.cls.name == "AutonomousModeSelector"]
    sflags = {k: sel[0].fields.get(k) for k in info["volatile"]["AutonomousModeSelector"]} if sel else {}
    ctx.require(all(v is True for v in flags.values()) and sflags and all(v is True for v in sflags.values()), "C06.O4", f"endCompetition sets {sorted(flags)} and the selector's {sorted(sflags)}", f"endCompetition leaves exit flags {flags} / selector {sflags}", site=("magicbot/magicrobot.py", 0, "MagicRobot.endCompetition"), key="C06.O4|flags")
    for func in robot.MODE_FUNCS:
        can = any(f2 == func and any(a[0] == "truthy" and "volatile:" in str(a[1]) and v for a, v in pi.atoms.items()) and pi.outcome == "return" for f2, w_, per, pi in res)
        ctx.require(can, "C06.O4", f"{func}: the mode loop exits when the exit flag is set", f"{func}(): no path leaves the mode loop because of the endCompetition flag", site=("magicbot/magicrobot.py", 0, func), key=f"C06.O4|{func}")
    ctx.sample({"create_path_events": [str(e[:2]) for e in rr.create_events(max((p for p in paths if p.outcome == 'return'), key=lambda p: len(p.trace)))][:40]})
