"""C07 - FMS attached: no user-callback exception stops the robot; otherwise it crashes."""
from .. import fn, robot
from ..interp import AbsRaise, Interp
from ..values import Obj
from . import robotrules as rr

EXPLANATION = (
    "Exception-fork analysis on the callback skeletons of the four mode functions (abstract robot with two components, two "
    "feedbacks, two reset entries, simulation periodic list, an active autonomous mode or none, both values of "
    "use_teleop_in_autonomous): every user callback event reachable from the mode loop or its transition code is made to raise, one "
    "at a time, and all continuations are enumerated.  C07.O1 the sites are enumerated from the source (floor: the 16 call sites "
    "confirmed by hand).  C07.O2 with the FMS attached the path must go on and its complete callback sequence (mode code, every "
    "component, every feedback, robotPeriodic, the will_reset_to reset, wait(), on_disable ...) must equal the specification skeleton "
    "- a missing guard, a guard around a whole loop, a handler that skips the rest, or a second callback inside one protected region "
    "all change the sequence; the exception must have reached a handler that consulted the FMS policy.  Without the FMS the same fault "
    "must leave the mode function as an exception (nothing above may swallow it, including the NotifierDelay context manager) and no "
    "further callback may run.  C07.O3 the two policy functions (MagicRobot.onException, the selector's default) re-raise the active "
    "exception before any other effect when isFMSAttached() is false and return normally when it is true, even if reporting fails.  "
    "C07.O5 on every fault path the driver station is asked for the FMS state after the fault (a flag cached at mode entry or at the "
    "last connection change is stale when the FMS attaches in between).  The injected fault is the most general one: an instance of a class derived from BaseException whose arguments hold an unhashable list."
)
RULE = "one case = one (mode function, raising callback site, FMS flag, exit/configuration choices) path"
EXHAUSTIVE = True


def check(ctx):
    ctx.assume("python", "ds")
    for r, t in (("C07.O1", "callback sites enumerated from the source (floor 16)"),
                 ("C07.O2", "attached: sequence unchanged and loop continues; not attached: exception leaves the mode function, nothing else runs"),
                 ("C07.O3", "policy functions: re-raise first when FMS not attached, return normally when attached"),
                 ("C07.O4", "nothing between the callback and startCompetition swallows the re-raised exception"),
                 ("C07.O5", "the policy asks the driver station whether the FMS is attached after the fault, not before (no cached flag)")):
        ctx.rule(r, t)
    info, res = rr.analyse(ctx, fault=True)
    sites = {}
    for func, w, per, pi in res:
        if pi.fault is not None:
            s = rr.fault_site(pi)
            sites.setdefault((s[0], s[1]), set()).add(rr.show_key(rr.faulted_key(pi)))
    ctx.cov["callback_sites"] = len(sites)
    import re as _re

    kinds = set()
    for func, w, per, pi in res:
        if pi.fault is not None:
            kinds.add((func, _re.sub(r"\[\d+\]", "[i]", rr.show_key(rr.faulted_key(pi)))))
    ctx.cov["callback_kinds"] = len(kinds)
    # (mode function, callback kind) pairs confirmed by hand on the pinned tree: 7 teleop + 10 autonomous + 5 disabled + 4 test
    ctx.floor("(mode function, callback kind) pairs made to raise", len(kinds), 26)
    ctx.ok("C07.O1", f"{len(sites)} callback call sites: " + "; ".join(f"{k[0]}:{k[1]}" for k in sorted(sites)))
    keep = lambda k: k[0] in ("comp", "fbget", "set", "reset", "robot", "mode", "wait", "iter")
    n = rr.fault_skeleton_check(ctx, res, keep, "C07.O2", "callbacks of the iteration / transition")
    ctx.add("evaluations", n)
    reported = set()
    n_na = n_att = 0
    for func, w, per, pi in res:
        if pi.fault is None:
            continue
        fk = rr.show_key(rr.faulted_key(pi))
        fms = pi.fms()
        site = rr.fault_site(pi)
        if not fms:
            k = (func, fk, pi.outcome)
            if k in reported:
                continue
            reported.add(k)
            if pi.outcome == "raise":
                ctx.fail("C07.O2", f"{func}(): an exception raised by {fk} is not caught by a guard that consults the FMS policy: it leaves the robot program even when the FMS is attached", site=site, key=f"C07.O2|unguarded|{site[0]}:{site[2]}|{fk}")
            else:
                ctx.fail("C07.O2", f"{func}(): an exception raised by {fk} is swallowed without consulting the FMS policy: the fault stays silent when no FMS is attached", site=site, key=f"C07.O2|silent|{site[0]}:{site[2]}|{fk}")
            continue
        if fms[-1]:
            n_att += 1
            if pi.outcome == "raise":
                k = (func, fk, "att-raise")
                if k not in reported:
                    reported.add(k)
                    ctx.fail("C07.O2", f"{func}(): with the FMS attached an exception raised by {fk} still leaves the mode function ({fn.exc_name(pi.p.value)})", site=site, key=f"C07.O2|escapes|{func}|{fk}")
        else:
            n_na += 1
            after = []
            seen = False
            for t in pi.tokens:
                if t[0] == "fault":
                    seen = True
                elif seen and t[0] == "cb":
                    after.append(rr.short(t))
            if pi.outcome != "raise":
                k = (func, fk, "na-swallow")
                if k not in reported:
                    reported.add(k)
                    ctx.fail("C07.O4", f"{func}(): without the FMS an exception raised by {fk} does not leave the mode function (it is swallowed on the way up): the robot keeps running instead of crashing loudly", site=site, key=f"C07.O4|{func}|{fk}")
            elif after:
                k = (func, fk, "na-after")
                if k not in reported:
                    reported.add(k)
                    ctx.fail("C07.O2", f"{func}(): without the FMS, after {fk} raised the callbacks {after[:4]} still run before the exception propagates", site=site, key=f"C07.O2|after|{func}|{fk}")
    # ---- O5 the FMS state that decides is read after the fault
    n5 = 0
    stale = {}
    for func, w, per, pi in res:
        if pi.fault is None:
            continue
        tr = pi.p.trace
        at = next((j for j, e in enumerate(tr) if e is pi.fault[-1]), None)
        if at is None:
            continue
        n5 += 1
        asked = any(e.kind == "ext" and "isFMSAttached" in e.name for e in tr[at:])
        if not asked:
            stale.setdefault((func, rr.show_key(rr.faulted_key(pi))), rr.fault_site(pi))
    for (func, fk), st in sorted(stale.items())[:6]:
        ctx.fail("C07.O5", f"{func}(): after {fk} raised, the swallow-or-crash decision is taken without asking the driver station whether the FMS is attached: it uses a value sampled earlier, which is wrong whenever the FMS (dis)connects in between", site=st, key=f"C07.O5|{func}|{fk}")
    if not stale:
        ctx.ok("C07.O5", f"on all {n5} fault paths isFMSAttached() is called after the fault")
    ctx.floor("fault paths checked for a fresh FMS query", n5, 70)
    ctx.cov["distinct_nontrivial"] = len({(func, rr.show_key(rr.faulted_key(pi)), tuple(pi.fms())) for func, w, per, pi in res if pi.fault is not None})
    ctx.cov["fault_paths_fms_attached"] = n_att
    ctx.cov["fault_paths_no_fms"] = n_na
    ctx.floor("fault paths with the FMS attached", n_att, 40)
    ctx.floor("fault paths without the FMS", n_na, 30)
    if not any(o[0] in ("C07.O2", "C07.O4") and not o[2] for o in ctx.obligations):
        ctx.ok("C07.O4", f"all {n_na} no-FMS fault paths leave the mode function as an exception")
    # ---- O3 policy functions
    policies = []
    w = res[0][1]
    r = w["robot"]
    policies.append(("MagicRobot.onException", lambda it, ww: it.getattr(ww["robot"], "onException")))
    sel = [v for v in r.fields.values() if isinstance(v, Obj) and v.cls.name == "AutonomousModeSelector"]
    if sel:
        import ast as _ast

        # the selector's own default policy: its method(s) that re-raise the active exception (bare `raise`)
        for mname, mf in sel[0].cls.ns.items():
            node = getattr(mf, "node", None)
            if node is not None and any(isinstance(x, _ast.Raise) and x.exc is None for x in _ast.walk(node)) and [a.arg for a in node.args.args][1:2] == ["forceReport"]:
                policies.append((f"AutonomousModeSelector.{mname}", lambda it, ww, mname=mname: it.getattr([v for v in ww["robot"].fields.values() if isinstance(v, Obj) and v.cls.name == "AutonomousModeSelector"][0], mname)))
    for pname, getter in policies:
        for force in (False, True):
            def run(it, ww, getter=getter, force=force):
                exc = it.make_exc("UserFault", "callback")
                it.exc_stack.append(exc)
                f = getter(it, ww)
                n0 = len(it.trace)
                try:
                    it.call(f, [], {"forceReport": force})
                finally:
                    it.exc_stack.pop()
                return exc, it.trace[n0:]

            class H(robot.RobotHooks):
                def ext_call(self, it, fn_, args, kwargs, node):
                    if fn_.path.endswith("reportError"):
                        it.emit("ext", fn_.path, args, kwargs, node=node)
                        if it.choose(2, "reportError raises"):
                            raise AbsRaise(it.make_exc("RuntimeError", "report failed"), it.site(node))
                        return None
                    return robot.RobotHooks.ext_call(self, it, fn_, args, kwargs, node)

            paths = fn.all_paths(ctx, run, hooks=lambda: H(info), world=w)
            ctx.add("paths", len(paths))
            for p in paths:
                fms = [v for a, v, _ in p.path if a[0] == "truthy" and "isFMSAttached" in str(a[-1])]
                site = ("magicbot/magicrobot.py" if "MagicRobot" in pname else "robotpy_ext/autonomous/selector.py", 0, pname)
                if not fms:
                    ctx.fail("C07.O3", f"{pname}(forceReport={force}) has a path that does not consult isFMSAttached()", site=site, key=f"C07.O3|{pname}|nofms")
                    continue
                if fms[0]:
                    ctx.require(p.outcome == "return", "C07.O3", f"{pname}(forceReport={force}): FMS attached -> returns normally", f"{pname}(forceReport={force}) raises {fn.exc_name(p.value) if p.outcome == 'raise' else p.outcome} although the FMS is attached", site=site, key=f"C07.O3|{pname}|attached")
                else:
                    good = p.outcome == "raise" and isinstance(p.value, AbsRaise) and fn.exc_name(p.value) == "UserFault"
                    effects = [e.name for e in p.trace if e.kind == "ext" and "isFMSAttached" not in e.name and "watchdog" not in e.name]
                    ctx.require(good and not effects, "C07.O3", f"{pname}(forceReport={force}): FMS not attached -> re-raises the active exception first", f"{pname}(forceReport={force}) with no FMS attached {'returns normally' if p.outcome == 'return' else 'raises ' + str(fn.exc_name(p.value)) if p.outcome == 'raise' else p.outcome}{' after ' + str(effects) if effects else ''}; expected an immediate re-raise of the callback's exception", site=site, key=f"C07.O3|{pname}|notattached")
    ctx.sample({"sites": {f"{k[0]}:{k[1]}": sorted(v) for k, v in sorted(sites.items())}})
