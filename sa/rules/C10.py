"""C10 - will_reset_to values never survive into the next control-loop iteration."""
from .. import fn, robot
from ..interp import Interp
from ..values import ClassV, DictV, Obj, Sym
from . import robotrules as rr

EXPLANATION = (
    "C10.O1/O2: callback skeletons of the mode functions (see C05): in every enabled iteration (teleop, and autonomous through "
    "iter_fn) the reset of every stored (defaults, component) pair is the last thing before NotifierDelay.wait(), after all "
    "execute(), feedbacks and periodics - on every normal path and on every path where one callback raises with the FMS attached "
    "(single-fault paths of C07); disabled and test iterations contain no reset.  C10.O3: the reset writes exactly "
    "component.__dict__.update(defaults) with defaults and component taken from the same stored pair; pairs are appended only by "
    "_setup_reset_vars, from collect_resets(type(component)), which also applies the defaults to the instance at creation.  "
    "C10.O4: collect_resets, interpreted on abstract class hierarchies (markers inherited over one and two levels, overridden, mixed "
    "with other attributes), returns exactly name -> default of every will_reset_to visible on the class, nothing else."
)
RULE = "one case = one path of a mode function (normal or single-fault) / one abstract class hierarchy for collect_resets"
EXHAUSTIVE = True


def check(ctx):
    ctx.assume("python", "ds")
    for r, t in (("C10.O1", "reset of all pairs is the last event group of every enabled iteration, also after a swallowed fault"),
                 ("C10.O2", "teleop and autonomous iterations each contain the reset exactly once; disabled/test none"),
                 ("C10.O3", "reset == component.__dict__.update(defaults) of the same stored pair; pairs created with defaults applied"),
                 ("C10.O4", "collect_resets(cls) == {name: marker.default} over the whole class hierarchy")):
        ctx.rule(r, t)
    info, res = rr.analyse(ctx)
    keep = lambda k: k[0] in ("fbget", "reset", "wait", "iter") or (k[0] == "comp" and k[2] == "execute") or (k[0] == "robot" and k[1].endswith("Periodic"))
    n = rr.skeleton_check(ctx, res, keep, "C10.O1", "placement of the will_reset_to reset in the iteration")
    ctx.add("evaluations", n)
    ctx.floor("paths compared", n, 500)
    bad_pair = [(f, t) for f, w, per, pi in res for t in pi.tokens if t[0] == "reset" and not t[3]]
    n_reset = sum(1 for f, w, per, pi in res for t in pi.tokens if t[0] == "reset")
    ctx.floor("reset events seen", n_reset, 100)
    ctx.require(not bad_pair, "C10.O3", f"all {n_reset} reset events update a component with the defaults stored next to it", f"the reset loop updates a component with something other than its own stored defaults: {bad_pair[0][1][-1] if bad_pair else ''}", site=bad_pair[0][1][-1].site if bad_pair else None, key="C10.O3|pair")
    infof, resf = rr.analyse(ctx, fault=True)
    nf = rr.fault_skeleton_check(ctx, resf, keep, "C10.O1", "will_reset_to reset after a swallowed callback exception")
    ctx.floor("single-fault paths", nf, 40)
    # unguarded sites before the reset skip it as well
    rep = set()
    for func, w, per, pi in resf:
        if pi.fault is not None and not pi.fms() and pi.outcome == "raise" and func in ("_operatorControl", "autonomous"):
            fk = rr.show_key(rr.faulted_key(pi))
            if any(t[0] == "iter" for t in pi.tokens) and fk not in rep:
                rep.add(fk)
                ctx.fail("C10.O1", f"{func}(): an exception from {fk} is not guarded, so with the FMS attached it skips the reset of this iteration (and stops the loop)", site=rr.fault_site(pi), key=f"C10.O1|unguarded|{fk}")
    # ---- O3 creation side
    info2, paths = rr.create_paths(ctx)
    ctx.add("paths", len(paths))
    checked = 0
    bad = set()
    for p in paths:
        if p.outcome != "return":
            continue
        evs = rr.create_events(p)
        for i, e in enumerate(evs):
            if e[0] == "phase" and e[1] == "collect_resets":
                comp_cls = e[2][0]
                follow = evs[i + 1:i + 3]
                tag = getattr(comp_cls, "path", "").split("(")[0]
                truthy = any(a[0] == "truthy" and "collect_resets" in str(a[-1]) and tag + "(" in str(a[-1]) and v for a, v, _ in p.path)
                upd = [x for x in follow if x[0] == "dictupdate"]
                app = [x for x in follow if x[0] == "listof_append"]
                if truthy and (not upd or not app):
                    bad.add("a component with will_reset_to markers is not given its defaults at creation / not registered for the per-iteration reset")
                for x in app:
                    pair = x[2][1]
                    # the record may be a tuple, a NamedTuple or an instance of a repository class: what matters is
                    # that it holds the defaults that were applied at creation and the component they were applied to
                    leaves = list(pair) if isinstance(pair, tuple) else (list(pair.fields.values()) if hasattr(pair, "fields") and not hasattr(pair, "path") else [])
                    applied = upd[0][2].args[0] if upd and upd[0][2].args else None
                    has_defaults = applied is not None and "collect_resets" in getattr(applied, "path", "") and sum(1 for l in leaves if l is applied) == 1
                    has_comp = bool(upd) and sum(1 for l in leaves if getattr(l, "path", None) is not None and l.path + ".__dict__.update" == upd[0][1]) == 1
                    ok = len(leaves) == 2 and has_defaults and has_comp
                    checked += 1
                    if not ok:
                        bad.add(f"the stored reset pair is {pair!r}: expected (defaults from collect_resets(type(component)), component)")
    site = ("magicbot/magicrobot.py", 0, "MagicRobot._setup_reset_vars")
    for b in sorted(bad):
        ctx.fail("C10.O3", b, site=site, key=f"C10.O3|create|{b[:30]}")
    if not bad:
        ctx.ok("C10.O3", f"{checked} registrations: defaults applied at creation and stored with their component")
    ctx.floor("reset registrations seen", checked, 20)
    # ---- O4 collect_resets on abstract hierarchies
    mr = fn.module(ctx, "magicbot.magic_reset")
    W = mr.ns.get("will_reset_to")
    CR = mr.ns.get("collect_resets")
    it = Interp(ctx.program)
    site4 = (mr.filename, CR.node.lineno, "collect_resets")

    def marker(v):
        return it.call(W, [v], {})

    def cls(name, bases, **ns):
        d = {"__annotations__": DictV(), "__doc__": None}
        d.update(ns)
        return ClassV(name, bases, d, mr, None, name, mutable=True)

    A = cls("A", [], x=marker(1), plain=5)
    B = cls("B", [A], y=marker("two"), method=Sym("somefunc", "any"))
    C = cls("C", [B], x=marker(3), z=marker(None))
    D = cls("D", [B], x=7)
    M = cls("M", [], m=marker(False))
    E_ = cls("E", [C, M])
    cases = [(A, {"x": 1}), (B, {"x": 1, "y": "two"}), (C, {"x": 3, "y": "two", "z": None}), (D, {"y": "two"}), (E_, {"x": 3, "y": "two", "z": None, "m": False}), (cls("Empty", []), {})]
    for K, want in cases:
        try:
            r = it.call(CR, [K], {})
            got = dict(r.items) if isinstance(r, DictV) else repr(r)
        except Exception as e:
            got = f"raises {e}"
        ctx.require(got == want, "C10.O4", f"collect_resets({K.name}) == {want}", f"collect_resets on class {K.name} (bases {[b.name for b in K.bases]}) returns {got}; expected {want} - markers inherited from base classes must be included and only will_reset_to markers", site=site4, key=f"C10.O4|{K.name}")
    ctx.sample({"collect_resets": {K.name: str(want) for K, want in cases}})
