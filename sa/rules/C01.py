"""C01 - regular states run only while engage() keeps being called (typestate closure)."""
from . import smcommon

EXPLANATION = (
    "Interprocedural typestate analysis of magicbot.StateMachine computed from the syntax tree: abstract subclasses are built "
    "through the real decorators, every public method is interpreted by an abstract interpreter from every reachable typestate "
    "(numbers abstracted to one opaque symbol per slot, every outcome of every time comparison, every in-state action script "
    "within the bound) and closed under a most-general client to a fixed point.  Monitors C01.M1 (a regular state runs only "
    "if engage() was called since the last iteration), C01.M2 (an engaged iteration runs exactly 1 + #next_state_now state "
    "functions), C01.M3 (after a stop nothing but the default state runs until engage()), C01.O1 (untimed states get a "
    "duration of at least 1e9 s, so they never expire) and CRASH (no exception escapes the API) are evaluated on every "
    "transition.  The space is finite and explored completely; the result rests on the client bounds and the clock assumption."
)
RULE = "one case = one (typestate, client call, resolution of all oracles) transition; distinct = reachable typestates"
EXHAUSTIVE = True
OWNED = {"C01.M1", "C01.M2", "C01.M3", "C01.O1", "CRASH", "ISO"}


def check(ctx):
    ctx.rule("ISO", "calls on one instance never change the heap reachable from another instance of the same class")
    ctx.assume("python", "clock", "client")
    ctx.rule("C01.M1", "a state that is neither default nor must_finish is called only if engage() was called since the previous outermost execute()")
    ctx.rule("C01.M2", "an outermost execute() with engage() called and no client done() calls exactly 1 + (number of next_state_now actions) state functions")
    ctx.rule("C01.M3", "an outermost execute() that begins with the machine stopped and not re-engaged calls no non-default state function")
    ctx.rule("C01.O1", "after entering an untimed state its expiry is its entry time plus a constant of at least 1e9 seconds")
    ctx.rule("CRASH", "no exception escapes engage/done/execute/on_enable/on_disable on a reachable path")
    res = smcommon.run_universes(ctx, "StateMachine", owned=OWNED)
    smcommon.report(ctx, res, OWNED)
    ctx.floor("universes", len(res), 4)
    ctx.floor("typestates", sum(r["states"] for r in res), 1000)
