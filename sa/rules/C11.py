"""C11 - @feedback methods are published every iteration in every mode under their key."""
from .. import fn, robot
from ..interp import AbsRaise, Interp
from ..values import ClassV, DictV, Ext, ListOf, Obj, Sym, SymStr
from . import robotrules as rr

EXPLANATION = (
    "C11.O1: callback skeletons of all four mode functions (see C05): every complete iteration of every mode calls every stored "
    "feedback getter exactly once, in list order, before robotPeriodic.  C11.O2: value flow - the argument of each setter call is "
    "the result of the getter call of the same stored pair in the same iteration; on single-fault paths with the FMS attached a "
    "raising getter suppresses exactly its own setter and nothing else (no stale value is published).  C11.O3: collect_feedbacks "
    "interpreted with a symbolic method name: the key is the explicit key when given, else name[len('get_'):] exactly when "
    "name.startswith('get_'), else the name itself; the table is '/components/<name>' resp. '/<name>' when the prefix is None.  "
    "C11.O4: a return annotation is mapped through the same type table as tunables (bool/int/float/str/bytes and their arrays to the "
    "ntcore topic class of the same name), without annotation the generic setValue entry is used.  C11.O5: _create_components "
    "collects feedbacks for the robot ('robot', no prefix) and for every component after its setup ('components' prefix, its own "
    "name), all into the list the feedback loop iterates."
)
RULE = "one case = one path of a mode function / of collect_feedbacks with symbolic names"
EXHAUSTIVE = True
MT = "magicbot.magic_tunable"
TABLE = {"bool": "Boolean", "int": "Integer", "float": "Double", "str": "String", "bytes": "Raw"}


def check(ctx):
    ctx.assume("python", "ds", "ntcore")
    for r, t in (("C11.O1", "every mode iteration: each feedback getter once, in order"),
                 ("C11.O2", "setter fed with the fresh value of its own getter; a raising getter skips only its own setter"),
                 ("C11.O3", "key = explicit key | name without leading 'get_' | name; table /components/<cname> or /<cname>"),
                 ("C11.O4", "typed publisher from the return annotation via the topic table; generic entry otherwise"),
                 ("C11.O5", "feedbacks collected for the robot and for every component after setup, into the iterated list")):
        ctx.rule(r, t)
    info, res = rr.analyse(ctx)
    keep = lambda k: k[0] in ("fbget", "set", "wait", "iter") or (k[0] == "robot" and k[1].endswith("Periodic"))
    n = rr.skeleton_check(ctx, res, keep, "C11.O1", "feedback publication in the iteration")
    ctx.add("evaluations", n)
    ctx.floor("paths compared", n, 500)
    modes_seen = {f for f, w, per, pi in res if any(t[0] == "cb" and t[1] == "fbget" for t in pi.tokens)}
    ctx.require(modes_seen == set(robot.MODE_FUNCS), "C11.O1", "feedback getters run in all four modes", f"feedback getters run only in {sorted(modes_seen)}", site=("magicbot/magicrobot.py", 0, "MagicRobot"), key="C11.O1|modes")
    stale = [(f, t) for f, w, per, pi in res for t in pi.tokens if t[0] == "set" and not t[3]]
    nset = sum(1 for f, w, per, pi in res for t in pi.tokens if t[0] == "set")
    ctx.require(not stale, "C11.O2", f"all {nset} setter calls receive the value their own getter just returned", f"a feedback setter is fed {stale[0][1][-1].args if stale else ''}, not the value its getter returned in this iteration", site=stale[0][1][-1].site if stale else None, key="C11.O2|fresh")
    infof, resf = rr.analyse(ctx, fault=True)
    nf = rr.fault_skeleton_check(ctx, resf, keep, "C11.O2", "feedback publication when a callback raises")
    stale_f = [(f, t) for f, w, per, pi in resf for t in pi.tokens if t[0] == "set" and not t[3]]
    ctx.require(not stale_f, "C11.O2", "no setter is fed a stale value on fault paths", f"when a getter raises, a setter is still called with {stale_f[0][1][-1].args if stale_f else ''} (a stale / foreign value is published)", site=stale_f[0][1][-1].site if stale_f else None, key="C11.O2|stale")
    # ---- O3 / O4 collect_feedbacks
    mt = fn.module(ctx, MT)
    CF = mt.ns.get("collect_feedbacks")
    site = (mt.filename, CF.node.lineno, "collect_feedbacks")
    name = Sym("name", "str", tag="nonnull", uid=0)

    class H:
        def __init__(self, hint):
            self.hint = hint
            self.events = []

        def ext_call(self, it, fn_, args, kwargs, node):
            p = fn_.path
            if p == "inspect.getmembers":
                meth = Ext("method", "user", role="userfn")
                meth.meta = {"name": "m", "params": [("self", "POSITIONAL_OR_KEYWORD")], "attrs": {"_magic_feedback": True, "_magic_feedback_key": Ext("explicit_key", "user", role="result", maybe_none=True)}}
                return ListOf((name, meth), label="members")
            if p == "typing.get_type_hints":
                d = DictV()
                if self.hint is not None:
                    d.items["return"] = self.hint
                return d
            return NotImplemented

    it0 = Interp(ctx.program)
    hints = [None] + [it0.builtins[k] for k in TABLE]
    cname = Sym("cname", "str", tag="nonnull", uid=0)
    n_paths = 0
    for prefix in ("components", None):
        for hint in hints:
            def run(it, w, prefix=prefix, hint=hint):
                it.generic_loop_fixed = 1
                fbs = it.call(CF, [Ext("component", "user", role="instance"), cname, prefix], {})
                evs_ = [e for e in it.trace if e.kind == "ext"]
                # the setter that comes back hands every value to NetworkTables: two calls -> two set events
                n0 = len(it.trace)
                pairs = it.materialize(fbs, None) if fbs is not None else []
                for pr in pairs:
                    st = pr[1] if isinstance(pr, tuple) and len(pr) == 2 else None
                    if st is None:
                        continue
                    for j in range(2):
                        it.call(st, [Ext(f"value{j}", "user", role="result")], {})
                sets = [e for e in it.trace[n0:] if e.kind == "ext" and (e.name.endswith(".setValue") or e.name.endswith(".set"))]
                it.setter_calls = (2 * len(pairs), len(sets))
                return evs_

            paths = fn.all_paths(ctx, run, hooks=lambda: H(hint))
            n_paths += len(paths)
            for p in paths:
                if p.outcome != "return":
                    ctx.fail("C11.O3", f"collect_feedbacks raises {fn.exc_name(p.value) if p.outcome == 'raise' else p.value}", site=site, key="C11.O3|raise")
                    continue
                evs = p.value
                want_n, got_n = getattr(p.interp, "setter_calls", (0, 0))
                ctx.require(want_n == got_n, "C11.O2", "the setter of a feedback pair passes every value on to NetworkTables", f"the setter that collect_feedbacks returns reaches NetworkTables {got_n} times for {want_n} values (path [{'; '.join(f'{a[0]}={v}' for a, v, _ in p.path)}]): a value returned by the getter is not published (filtered / cached setter)", site=site, key="C11.O2|setter")
                if not any(e.name.endswith(".getEntry") or e.name.endswith(".getTopic") for e in evs):
                    continue  # zero members
                tables = [e for e in evs if e.name.endswith(".getTable")]
                want_t = SymStr(("/components/", cname)) if prefix else SymStr(("/", cname))
                okt = len(tables) == 1 and tables[0].args and tables[0].args[0] == want_t
                ctx.require(okt, "C11.O3", f"table {want_t!r}", f"collect_feedbacks(prefix={prefix!r}) publishes under table {tables[0].args if tables else None}; expected {want_t!r}", site=site, key=f"C11.O3|table|{prefix}")
                keys = [e for e in evs if e.name.endswith(".getEntry") or e.name.endswith(".getTopic")]
                explicit_none = [v for a, v, _ in p.path if a[0] == "isnone" and "explicit_key" in str(a[-1])]
                starts = [v for a, v, _ in p.path if a[0] == "startswith"]
                start_arg = [a for a, v, _ in p.path if a[0] == "startswith"]
                if len(keys) != 1:
                    ctx.fail("C11.O3", f"collect_feedbacks creates {len(keys)} entries for one feedback method", site=site, key="C11.O3|entries")
                    continue
                k = keys[0].args[0]
                if explicit_none and not explicit_none[0]:
                    good = isinstance(k, Ext) and k.path == "explicit_key"
                    what = "the explicit key"
                elif starts and starts[0]:
                    pre = start_arg[0][2]
                    lit = pre[2] if isinstance(pre, tuple) and len(pre) > 2 else None
                    good = isinstance(k, SymStr) and len(k.parts) == 1 and isinstance(k.parts[0], Sym) and isinstance(k.parts[0].tag, tuple) and k.parts[0].tag[0] == "slice" and k.parts[0].tag[2] == 4 and k.parts[0].tag[3] is None and lit == "get_"
                    what = "name[4:] when name.startswith('get_')"
                else:
                    good = (isinstance(k, Sym) and k.name.startswith("name#")) or (isinstance(k, SymStr) and len(k.parts) == 1 and isinstance(k.parts[0], Sym) and k.parts[0].name.startswith("name#"))
                    what = "the method name itself"
                    if not starts:
                        good = False
                ctx.require(good, "C11.O3", f"key is {what}", f"collect_feedbacks derives the key {k!r} on path [{'; '.join(f'{a[0]}={v}' for a, v, _ in p.path)}]; expected {what}", site=site, key=f"C11.O3|key|{what[:12]}")
                # O4
                if hint is None:
                    ok4 = keys[0].name.endswith(".getEntry") and any(e.name.endswith(".setValue") or True for e in evs)
                    ctx.require(ok4, "C11.O4", "no annotation -> generic entry (setValue)", f"without a return annotation collect_feedbacks uses {keys[0].name}", site=site, key="C11.O4|generic")
                else:
                    want = "ntcore." + TABLE[hint.name] + "Topic"
                    topics = [e for e in evs if e.name.startswith("ntcore.") and e.name.endswith("Topic") and e.name.count(".") == 1]
                    ok4 = len(topics) == 1 and topics[0].name == want and any(e.name.endswith(".publish") for e in evs)
                    ctx.require(ok4, "C11.O4", f"-> {hint.name} annotation uses {want}", f"a feedback annotated '-> {hint.name}' is published through {[e.name for e in topics]}; expected {want}(...).publish()", site=site, key=f"C11.O4|{hint.name}")
    ctx.add("paths", n_paths)
    ctx.floor("paths of collect_feedbacks", n_paths, 30)
    # ---- O5
    info2, paths = rr.create_paths(ctx)
    problems = set()
    checked = 0
    fb_field = None
    for f, w, per, pi in res:
        if pi.roles.get("fb"):
            fb_field = pi.roles["fb"]
    for p in paths:
        if p.outcome != "return":
            continue
        evs = rr.create_events(p)
        cf = [(i, e) for i, e in enumerate(evs) if e[0] == "phase" and e[1] == "collect_feedbacks"]
        robot_calls = [e for i, e in cf if isinstance(e[2][0], Obj)]
        if len(robot_calls) != 1 or robot_calls[0][2][1] != "robot" or robot_calls[0][2][2] is not None:
            problems.add("feedbacks of the robot itself are not collected exactly once as ('robot', prefix None)")
        created = [e[1] for e in evs if e[0] == "create"]
        for c in created:
            mine = [(i, e) for i, e in cf if isinstance(e[2][0], Ext) and e[2][0].path.startswith(f"annotated_type#{c}(")]
            if len(mine) != 1 or mine[0][1][2][2] != "components" or not (isinstance(mine[0][1][2][1], Sym) and mine[0][1][2][1].name == f"attr#{c}"):
                problems.add("feedbacks of a component are not collected exactly once under ('components', its own name)")
                continue
            i = mine[0][0]
            setup_i = [j for j, e in enumerate(evs) if e[0] == "setup" and e[1].startswith(f"annotated_type#{c}(")]
            if setup_i and setup_i[0] > i:
                problems.add("a component's feedbacks are collected before its setup()")
            checked += 1
        for i, e in cf:
            nxt = evs[i + 1] if i + 1 < len(evs) else None
            if not (nxt and nxt[0] == "listof_extend" and nxt[1] == f"robot.{fb_field}"):
                problems.add(f"collected feedbacks are not added to the list the feedback loop iterates (robot.{fb_field})")
    for b in sorted(problems):
        ctx.fail("C11.O5", b, site=("magicbot/magicrobot.py", 0, "MagicRobot._create_components"), key=f"C11.O5|{b[:30]}")
    if not problems:
        ctx.ok("C11.O5", f"feedback collection correct on {checked} component creations")
    ctx.floor("component creations checked", checked, 50)
