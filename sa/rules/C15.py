"""C15 - StatefulAutonomous runs each state for its duration, in every autonomous period."""
import multiprocessing as mp
import os

from ..closure import close, numeric_slots
from ..interp import Interp, Program
from ..smworld import StateSpec, user_fn
from ..values import Unsupported, ClassV, DictV, Ext, LazyV, Lin, Obj, Sym
from . import sm

EXPLANATION = (
    "Typestate closure of robotpy_ext.autonomous.StatefulAutonomous computed from the source: abstract subclasses are built through the "
    "real state/timed_state decorators and the real constructor; the state records live on the *class*, so whatever an earlier period "
    "or an earlier visit left behind (ran flag, expiry, start time) is part of the typestate when on_enable() or next_state() enters "
    "a state again.  Client: on_enable / on_iteration(tm) / on_disable in any order (on_iteration after the first on_enable), any tm "
    "values (symbolic, every comparison outcome), in-state scripts next_state(X) / done().  Monitors: C15.M1 a state that was entered "
    "but has not run is never left because of a time comparison (run-at-least-once; the missing 'has run' guard of the fixed defect D4 "
    "is exactly this); C15.M2 initial_call is True exactly on the first call after each entry; C15.M3 exactly one state function per "
    "iteration while running, the one last requested (or the successor on expiry), none after the last state expired or done() until "
    "on_enable(), which enters the first state; C15.T1 the engine leaves a state only after a strict 'expiry < tm'; C15.T2 state_tm "
    "is 0 on entry by request, tm - predecessor expiry on entry by expiry, tm - recorded entry time afterwards, and the expiry recorded "
    "on entry is entry time + the '<state>_duration' attribute that on_enable() read from the dashboard key '<MODE_NAME>\\\\<state>_"
    "duration' registered with the decorator's value as default; C15.A the tm passed to the state function is on_iteration's argument.  After on_enable() every '<state>_duration' attribute is the value the dashboard returned for its key, not a function of it (no conversion / truncation)."
)
RULE = "one case = one (typestate, client call, oracle resolution) transition; distinct = reachable typestates"
EXHAUSTIVE = True
MODULE = "robotpy_ext.autonomous.stateful_autonomous"
API = {"on_enable", "on_iteration", "on_disable", "next_state", "done"}
ABSENT = sm.ABSENT


def universes(tier):
    out = []
    for kind in (("timed",) if tier == "quick" else ("timed", "state")):
        specs = [StateSpec("first", kind, first=True), StateSpec("second", kind), StateSpec("third", "timed", duration=0)]
        if tier == "thorough":
            specs.append(StateSpec("fourth", "state"))
        out.append((f"StatefulAutonomous[{kind}]", specs))
    # parameter orders
    out.append(("StatefulAutonomous[signatures]", [StateSpec("first", "timed", first=True, params=("initial_call", "tm")), StateSpec("second", "timed", params=("state_tm", "tm", "initial_call")), StateSpec("third", "state", params=("state_tm",))]))
    return out


class Hooks(sm.SMHooks):
    module = MODULE
    api = API
    script_apis = ("next_state", "done")

    def decide(self, it, atom, node):
        r = sm.SMHooks.decide(self, it, atom, node)
        if r is not None:
            return r
        if atom[0] == "isinstance" and "dur_" in str(atom[1]):
            return atom[-1] == "float"  # decorator durations are floats
        return None

    def on_event(self, it, ev):
        if ev.kind == "ext" and ("getNumber" in ev.name or "getBoolean" in ev.name or "getString" in ev.name) and ev.name.count("(") <= 2:
            self.events.append(("sd_read", ev.args))
        sm.SMHooks.on_event(self, it, ev)


def build(program, specs):
    it = Interp(program)
    mod = it.module(MODULE)
    base = mod.ns["StatefulAutonomous"]
    ns = {"__annotations__": DictV(), "__doc__": None, "MODE_NAME": "mode"}
    targets = [s.name for s in specs]
    for s in specs:
        f = user_fn(s.name, s.params, s.doc)
        if s.kind == "timed":
            nxt = LazyV(f"next_state[{s.name}]", [None] + targets)
            nxt.persist = False
            dur = s.duration if s.duration is not None else Sym(f"dur_{s.name}", "num", tag="duration", uid=0)
            w = it.call(mod.ns["timed_state"], [f], {"duration": dur, "next_state": nxt, "first": s.first})
        else:
            w = it.call(mod.ns["state"], [f], {"first": s.first}) if s.first else it.call(mod.ns["state"], [f], {})
        ns[s.name] = w
    cls = ClassV("UserAuto", [base], ns, mod, None, "UserAuto", mutable=True)
    it.finish_class(cls)
    h = Hooks(specs)
    it.hooks = h
    m = it.call(cls, [], {})
    registered = [e for e in it.trace if e.kind == "ext" and e.name.endswith(".putNumber")]
    return {"mode": m, "cls": cls}, registered


def actions_for(specs):
    acts = [("on_enable",), ("on_iteration",), ("on_disable",)]

    def f(w, g):
        if not g["enabled"]:
            return [a for a in acts if a[0] != "on_iteration"]
        return acts

    return f


def run_action(it, world, action):
    m = world["mode"]
    args = []
    if action[0] == "on_iteration":
        args = [Sym("tm", "num", tag="client-tm", uid=0)]
    it.call(it.getattr(m, action[0]), args, {})
    return {}


GHOST0 = {"enabled": False, "running": False, "pending": None, "last": None, "interv": True, "fresh": None}


class Monitor:
    def __init__(self, specs):
        self.specs = {s.name: s for s in specs}
        self.first = [s.name for s in specs if s.first][0]
        self.n_checked = 0
        self.role_f1 = {}

    def __call__(self, g, action, events, obs, outcome, world):
        V = []

        def err(rule, msg, site=None):
            V.append((rule, msg, site))

        if isinstance(outcome, tuple) and outcome[0] == "raise":
            ar = outcome[1]
            en = ar.exc.cls.name if isinstance(ar.exc, Obj) else repr(ar.exc)
            err("CRASH", f"{action[0]}() raises {en} {getattr(ar.exc, 'fields', {}).get('args', '')} at {ar.site}", ar.site)
            return g, V
        slots = numeric_slots(world)
        changed = {p for p, v in slots.items() if not (isinstance(v, Sym) and v.name in ("old:" + p, "forever:" + p))}
        name = action[0]
        runs = []
        last_lin = None
        pending_timeout = False
        cause = {}
        entries = {}
        sd_reads = 0
        was_running = g["running"]
        exp_state = g["pending"]
        tm_arg = Sym("tm", "num", tag="client-tm", uid=0)
        for ev in events:
            k = ev[0]
            if k == "sd_read":
                sd_reads += 1
            elif k == "call":
                _, api, args, ctx, d, owner = ev
                if api == "next_state":
                    tgt = args[0] if args else None
                    if name == "on_iteration" and ctx == "engine":
                        if last_lin is None:
                            err("C15.T1", f"the engine moved to state {tgt!r} without a strict 'expiry < tm' comparison having come out true on that path")
                        elif g["fresh"] is not None and pending_timeout:
                            err("C15.M1", f"state '{g['fresh']}' was entered but left by expiry before it ran once (stale expiry from an earlier run)")
                        pending_timeout = False
                        if tgt is not None:
                            cause[tgt] = ("expiry", last_lin)
                    elif tgt is not None:
                        cause[tgt] = ("request",)
                    g["interv"] = True
                    g["fresh"] = tgt
                    g["pending"] = tgt
                    g["running"] = tgt is not None
                if api == "on_enable" and ctx == "client":
                    g["enabled"] = True
            elif k == "cmp_true" and name == "on_iteration":
                last_lin = ev[2]
                pending_timeout = True
            elif k == "run":
                _, S, tm, stm, ic, d, site = ev
                if S not in self.specs:
                    continue
                self.n_checked += 1
                runs.append(S)
                if name != "on_iteration":
                    err("C15.M3", f"state '{S}' ran during {name}()", site)
                    continue
                if tm is not ABSENT and not (isinstance(tm, Sym) and tm == tm_arg):
                    err("C15.A", f"state '{S}' received tm={tm!r}; expected the elapsed time passed to on_iteration", site)
                exp_ic = (g["last"] != S) or g["interv"]
                if ic is not ABSENT and ic is not exp_ic:
                    err("C15.M2", f"state '{S}' called with initial_call={ic!r}, expected {exp_ic} (last state run: {g['last']}, next_state()/done() since: {g['interv']})", site)
                if stm is not ABSENT:
                    stmL = Lin.of(stm) if not isinstance(stm, bool) else None
                    if stmL is None:
                        err("C15.A", f"state '{S}' received non-numeric state_tm {stm!r}", site)
                    else:
                        c = cause.get(S, ("request",))
                        real_ic = exp_ic
                        start_abs = Lin.of(tm_arg).add(stmL, -1)
                        if real_ic:
                            if c[0] == "expiry":
                                if stmL.add(c[1]) != Lin(0):
                                    err("C15.T2", f"state '{S}' entered by expiry of its predecessor received state_tm={stm!r}; expected tm minus the predecessor's expiry ({c[1].scale(-1)!r})", site)
                            elif stmL != Lin(0):
                                err("C15.T2", f"state '{S}' received state_tm={stm!r} on its initial call after being entered by on_enable()/next_state(); expected 0", site)
                            entries[S] = (start_abs, site)
                        else:
                            sa = start_abs.simplify()
                            okk = isinstance(sa, Sym) and sa.name.startswith("old:") and (S not in self.role_f1 or sa.name[4:] in self.role_f1[S])
                            if not okk:
                                err("C15.T2", f"state '{S}' received state_tm={stm!r} on a consecutive call; tm - state_tm must be the entry time recorded at its initial call", site)
                elif exp_ic:
                    entries[S] = (None, site)
                if exp_state is not None and len(runs) == 1 and last_lin is None and S != exp_state:
                    err("C15.M3", f"state '{exp_state}' was requested (next_state/on_enable) but '{S}' ran in the next iteration", site)
                g["last"] = S
                g["interv"] = False
                g["fresh"] = None
                cause.pop(S, None)
        if name == "on_iteration":
            if was_running and g["running"] is not False and len(runs) != 1:
                if not (len(runs) == 0 and last_lin is not None and g["pending"] is None):
                    err("C15.M3", f"iteration ran {len(runs)} state functions ({runs}); expected exactly one while the mode is running")
            if not was_running and runs:
                err("C15.M3", f"state(s) {runs} ran after the mode had finished (last state expired or done()) and before on_enable()")
        if name == "on_enable":
            if g["pending"] != self.first:
                err("C15.M3", f"on_enable() entered state {g['pending']!r}; expected the first state '{self.first}'")
            n_timed = sum(1 for s in self.specs.values() if s.kind == "timed")
            if sd_reads < n_timed:
                err("C15.M3", f"on_enable() re-read {sd_reads} dashboard values; expected at least the {n_timed} state durations")
            # ... and each '<state>_duration' attribute is what the dashboard returned, not a function of it
            for S_, sp_ in self.specs.items():
                if sp_.kind != "timed":
                    continue
                dv = world["mode"].fields.get(S_ + "_duration")
                direct = isinstance(dv, Ext) and "getNumber(" in dv.path
                if dv is not None and not direct:
                    err("C15.T2", f"after on_enable() the attribute '{S_}_duration' is {dv!r}: not the value the dashboard returned for it (a converted / truncated value makes the state last a different time than the dashboard says)")
        # post-state of entered states: expiry = entry + current duration attribute
        m = world["mode"]
        for S, (start_abs, site) in entries.items():
            if start_abs is None:
                continue
            f1 = [p for p in changed if _lin(slots[p]) == start_abs]
            if f1:
                self.role_f1.setdefault(S, set()).update(f1)
            else:
                err("C15.T2", f"after the initial call of '{S}' no record holds its entry time {start_abs.simplify()!r}", site)
            dur = m.fields.get(S + "_duration")
            ok = False
            for p in changed:
                v = _lin(slots[p])
                if v is None:
                    continue
                diff = v.add(start_abs, -1)
                if self.specs[S].kind == "timed":
                    if dur is not None and isinstance(dur, Ext) and "num" in dur.attrs and diff == Lin.of(dur.attrs["num"]):
                        ok = True
                    elif dur is not None and not isinstance(dur, Ext) and _lin(dur) is not None and diff == _lin(dur):
                        ok = True
                elif diff.is_const() and diff.const >= sm.FOREVER:
                    ok = True
            if not ok:
                want = f"entry time + the '{S}_duration' value read at on_enable()" if self.specs[S].kind == "timed" else "entry time + a duration of at least 1e9 s (untimed state)"
                err("C15.T2", f"after the initial call of '{S}' (entry time {start_abs.simplify()!r}) no record holds its expiry = {want}", site)
        return g, V


def _lin(v):
    try:
        return Lin.of(v)
    except TypeError:
        return None


def _one(args):
    repo, tier, idx = args
    program = Program(repo)
    uname, specs = universes(tier)[idx]
    world, registered = build(program, specs)
    mon = Monitor(specs)
    r = close(program, world, dict(GHOST0), actions_for(specs), run_action, mon, lambda: Hooks(specs, 1, 0))
    return {"universe": uname, "states": r.states, "transitions": r.transitions, "paths": r.paths, "checked": mon.n_checked,
            "violations": [(v.rule, v.message, v.client_seq, v.events, v.site) for v in r.violations], "samples": r.samples[:1],
            "registered": [(repr(e.args[0]), repr(e.args[1])) for e in registered]}


def check(ctx):
    ctx.assume("python", "client", "ntcore")
    for r, t in (("C15.M1", "a state entered but not yet run is never left because of a time comparison"),
                 ("C15.M2", "initial_call == first call after an entry"),
                 ("C15.M3", "one state per iteration; requested state runs next; nothing after finish until on_enable(); on_enable enters the first state and re-reads the dashboard"),
                 ("C15.T1", "engine transition => strict 'expiry < tm' true on the path"),
                 ("C15.T2", "state_tm / entry time / expiry equations (expiry = entry + duration read at on_enable)"),
                 ("C15.A", "tm is on_iteration's argument; parameters routed by name"),
                 ("C15.K", "duration keys: '<MODE_NAME>\\\\<state>_duration' registered with the decorator value as default"),
                 ("CRASH", "no exception escapes on_enable/on_iteration/on_disable on a reachable path")):
        ctx.rule(r, t)
    ctx.used("robotpy_ext/autonomous/stateful_autonomous.py")
    n = len(universes(ctx.tier))
    jobs = [(ctx.repo, ctx.tier, i) for i in range(n)]
    if os.environ.get("VERIF_SERIAL"):
        res = [_one(j) for j in jobs]
    else:
        import concurrent.futures as cf

        try:
            with cf.ProcessPoolExecutor(max_workers=min(n, os.cpu_count() or 2), mp_context=mp.get_context("fork")) as pool:
                res = list(pool.map(_one, jobs))
        except cf.process.BrokenProcessPool as e:
            raise Unsupported(f"a worker process of the closure died (out of memory?): {e}")
    rules = ["C15.M1", "C15.M2", "C15.M3", "C15.T1", "C15.T2", "C15.A", "CRASH"]
    for r in res:
        ctx.add("states", r["states"])
        ctx.add("transitions", r["transitions"])
        ctx.add("paths", r["paths"])
        ctx.add("evaluations", r["paths"])
        ctx.add("distinct_nontrivial", r["states"])
        ctx.add("state_function_calls_checked", r["checked"])
        bad = {v[0] for v in r["violations"]}
        for rule in rules:
            if rule not in bad:
                ctx.ok(rule, f"{rule} held on every transition of {r['universe']} ({r['states']} typestates)")
        for rule, msg, seq, events, site in r["violations"]:
            ctx.fail(rule, f"{msg} [universe {r['universe']}; client sequence: {' ; '.join(seq)}]", site=site, key=f"{rule}|{msg[:60]}", detail={"client_sequence": seq, "events": events})
        for s in r["samples"]:
            ctx.sample({"universe": r["universe"], **s})
        # C15.K keys registered by the constructor
        for key, default in r["registered"]:
            st = key.strip("'").split("\\\\")[-1]
            good = key.startswith("'mode\\\\") and st.endswith("_duration") and default in (f"$dur_{st[:-len('_duration')]}", "0")
            ctx.require(good, "C15.K", f"registered {key} default {default}", f"the constructor registers dashboard key {key} with default {default}; expected 'MODE_NAME\\\\<state>_duration' with the decorator's duration", site=("robotpy_ext/autonomous/stateful_autonomous.py", 0, "StatefulAutonomous.__build_states"), key=f"C15.K|{key}")
    ctx.floor("universes", len(res), 2)
    ctx.floor("typestates", sum(r["states"] for r in res), 50)
    ctx.floor("registered durations", sum(len(r["registered"]) for r in res), 3)
    ctx.cov["exhaustive"] = True
