"""C14 - autonomous mode selector: faithful discovery, one active mode, clean lifecycle."""
from .. import fn
from ..closure import close
from ..framework import AnalysisError
from ..interp import AbsRaise, Interp
from ..values import ClassV, DictV, Ext, ListOf, ListV, Obj, Sym, show

EXPLANATION = (
    "Abstract interpretation of robotpy_ext/autonomous/selector.py with the import system, glob and inspect.getmembers replaced by "
    "oracles (a package of two modules with 0..2 mode classes each, symbolic MODE_NAMEs that may coincide, arbitrary DISABLED/DEFAULT "
    "flags, imports and constructors that may raise, FMS attached or not - read consistently).  C14.O1 a class is instantiated iff "
    "MODE_NAME is not None and DISABLED is falsy, exactly once, with the selector's extra arguments, and nothing is instantiated in an "
    "iteration whose module import failed; C14.O2 each of the four fault kinds (module import, constructor, duplicate name, several "
    "defaults) raises when no FMS is attached and is tolerated with it, a missing package is tolerated, any other ImportError of the "
    "package propagates, and every successfully constructed mode is registered (a duplicate under a distinct key); C14.O3 every "
    "registered mode is offered exactly once under its key, DEFAULT truthy -> setDefaultOption else addOption, 'None' is always added "
    "and is the default when no mode is.  C14.O4 selection: the dashboard string wins iff it is a registered key, otherwise the "
    "chooser's selection.  C14.M1 typestate closure over start / periodic / disable (any order after the first start; callbacks may "
    "raise): callbacks go only to the active mode, in the order on_enable, on_iteration*, on_disable, and nothing is delivered to a mode "
    "after its on_disable.  C14.O5 run(): one Timer created and started before on_enable, its get() passed to every on_iteration, "
    "never reset/stopped in the loop; disable() is reached on every exit; if user code calls disable() during the period no further "
    "callback reaches the old mode.  C14.O6 module names: on file names chosen to expose wrong suffix handling (sweep.py, strategy.py, happy.py, py.py, a.b.py ...) every NAME.py except __init__.py is imported as '.NAME' (os.path string functions are evaluated on concrete arguments)."
)
RULE = "one case = one path of the constructor (package layout x flags x faults) / one typestate transition of the lifecycle"
EXHAUSTIVE = True
MOD = "robotpy_ext.autonomous.selector"


class CtorHooks:
    """oracles for the package scan"""

    def __init__(self):
        self.fms = None
        self.events = []
        self.classes = []
        self.listed = 0
        self.world = None

    def on_decide(self, it, atom, val, node):
        if atom[0] == "truthy" and "isFMSAttached" in str(atom[-1]) and self.fms is None:
            self.fms = val

    def decide(self, it, atom, node):
        if atom[0] == "truthy" and "isFMSAttached" in str(atom[-1]) and self.fms is not None:
            return self.fms
        if atom[0] == "truthy" and "__file__" in str(atom[-1]):
            return True
        return None

    def ext_call(self, it, f, args, kwargs, node):
        p = f.path
        if p == "importlib.import_module":
            top = len(args) == 1
            it.emit("ext", p, args, kwargs, node=node)
            if it.choose(2, ("import fails", show(args[0]))):
                e = it.make_exc("ImportError", "import")
                e.fields["name"] = Sym("failed_name", "str", tag="nonnull") if top else "something"
                it.emit("fault", "import:" + ("package" if top else "module"), args, node=node)
                raise AbsRaise(e, it.site(node))
            m = Ext(f"module({show(args[0])})", "lib", role="module")
            return m
        if p == "glob.glob":
            return ListOf(Sym("file", "str", tag="nonnull"), label="glob")
        if p == "inspect.getmembers":
            it.emit("ext", p, args, kwargs, node=node)
            if args[0] is None:
                return ListV([])
            n = it.choose(3 if self.listed == 0 else 2, ("classes in module", self.listed))
            self.listed += 1
            out = []
            for j in range(n):
                k = len(self.classes)
                c = Ext(f"ModeClass{k}", "user", role="class")
                c.attrs[".MODE_NAME"] = Sym(f"MODE_NAME{k}", "str")
                c.module_arg = args[0]
                self.classes.append(c)
                out.append((f"ModeClass{k}", c))
            return ListV(out)
        if f.role == "class" and f.origin == "user" and f.path.startswith("ModeClass"):
            ev = it.emit("user", f.path, args, kwargs, node=node, callee=f)
            if it.choose(2, ("ctor fails", f.path)):
                it.emit("fault", "ctor:" + f.path, node=node)
                raise AbsRaise(it.make_exc("UserFault", f.path), it.site(node))
            r = Ext(f.path + "()", "user", role="instance", parent=f)
            r.attrs[".MODE_NAME"] = f.attrs[".MODE_NAME"]
            r.cls_ext = f
            ev.extra = r
            return r
        return NotImplemented


def ctor_paths(ctx, SEL):
    extra = Sym("extra_arg", "any", uid=0)

    def run(it, w):
        it.generic_loop_fixed = 2
        return it.call(SEL, ["autonomous", extra], {"key": extra})

    return fn.all_paths(ctx, run, hooks=CtorHooks, max_paths=200000), extra


FILES = ["sweep.py", "strategy.py", "drive.py", "__init__.py", "happy.py", "two_ball.py", "app.py", "py.py", "relay.py", "a.b.py"]


class NameHooks(CtorHooks):
    """file names chosen so that wrong ways of dropping the '.py' suffix show (names ending in '.', 'p', 'y')"""

    def ext_call(self, it, f, args, kwargs, node):
        if f.path == "glob.glob":
            return ListV(["/robot/autonomous/" + n for n in FILES])
        if f.path == "inspect.getmembers":
            it.emit("ext", f.path, args, kwargs, node=node)
            return ListV([])
        if f.path == "importlib.import_module":
            it.emit("ext", f.path, args, kwargs, node=node)
            return Ext(f"module({show(args[0])})", "lib", role="module")
        return CtorHooks.ext_call(self, it, f, args, kwargs, node)


def module_names(ctx, SEL, site):
    """C14.O6: every file NAME.py of the package directory (except __init__.py) is imported as module '.NAME'"""
    ctx.rule("C14.O6", "module scan: file NAME.py is imported as '.NAME' (suffix removed, nothing else), __init__.py is skipped")

    def run(it, w):
        it.call(SEL, ["autonomous"], {})
        return [e.args[0] for e in it.trace if e.kind == "ext" and e.name == "importlib.import_module" and len(e.args) > 1]

    paths = [p for p in fn.all_paths(ctx, run, hooks=NameHooks, max_paths=5000) if p.outcome == "return"]
    ctx.add("paths", len(paths))
    ctx.floor("module scan paths with concrete file names", len(paths), 1)
    want = ["." + n[:-3] for n in FILES if n != "__init__.py"]
    for p in paths:
        got = p.value
        if not all(isinstance(x, str) for x in got):
            raise AnalysisError(f"module names are not derived from the file names by string operations the analysis evaluates: {got!r}")
        ctx.require(sorted(got) == sorted(want), "C14.O6", f"files {FILES} -> modules {want}", f"for the files {FILES} the scan imports the modules {got}; expected {want} (the '.py' suffix must be cut off, not its characters stripped)", site=site, key="C14.O6|names")
        break


def check(ctx):
    ctx.assume("python", "import", "ds")
    for r, t in (("C14.O1", "instantiate iff MODE_NAME is not None and DISABLED falsy; once; nothing after a failed module import"),
                 ("C14.O2", "import / constructor / duplicate / multiple-default faults: raise without FMS, tolerated with it; healthy modes registered"),
                 ("C14.O3", "chooser: every registered mode offered once under its key; DEFAULT -> setDefaultOption; 'None' always, default if no default mode"),
                 ("C14.O4", "selection: dashboard string if it is a registered key, else chooser selection"),
                 ("C14.M1", "callbacks only to the active mode, on_enable . on_iteration* . on_disable, nothing after on_disable"),
                 ("C14.O5", "run(): one started Timer, get() passed to on_iteration, never reset; disable() on every exit; no delivery to a mode disabled mid-period")):
        ctx.rule(r, t)
    msel = fn.module(ctx, MOD)
    SEL = msel.ns.get("AutonomousModeSelector")
    site = (msel.filename, SEL.lookup("__init__")[1].node.lineno, "AutonomousModeSelector.__init__")
    module_names(ctx, SEL, site)
    paths, extra = ctor_paths(ctx, SEL)
    ctx.add("paths", len(paths))
    ctx.add("evaluations", len(paths))
    ctx.floor("constructor paths", len(paths), 300)
    seen = set()

    def fail(rule, msg, key):
        if key in seen:
            return
        seen.add(key)
        ctx.fail(rule, msg, site=site, key=f"{rule}|{key}")

    clean_world = None
    n_ret = 0
    for p in paths:
        h = p.interp.hooks
        atoms = [(a, v) for a, v, _ in p.path]
        fms = h.fms
        faults = [e for e in p.trace if e.kind == "fault"]
        pkg_fault = [e for e in faults if e.name == "import:package"]
        # per class decisions
        ctor_calls = {}
        for e in p.trace:
            if e.kind == "user" and e.name.startswith("ModeClass") and "." not in e.name:
                ctor_calls.setdefault(e.name, []).append(e)
        for c in h.classes:
            name_none = next((v for a, v in atoms if a[0] == "isnone" and f"MODE_NAME{c.path[9:]}" in str(a)), None)
            dis_has = next((v for a, v in atoms if a[0] == "hasattr" and c.path in str(a) and "DISABLED" in str(a)), None)
            dis_true = next((v for a, v in atoms if a[0] == "truthy" and c.path + ".DISABLED" in str(a[-1])), None)
            decided = name_none is not None
            if not decided:
                continue  # the path ended before this class was looked at
            should = (name_none is False) and not (dis_has and dis_true)
            if should and (dis_has is None):
                continue
            calls = ctor_calls.get(c.path, [])
            if len(calls) != (1 if should else 0):
                # a path that raised before reaching the constructor is fine
                if p.outcome == "raise" and should and not calls:
                    continue
                fail("C14.O1", f"a class with MODE_NAME {'None' if name_none else 'set'} and DISABLED {'truthy' if dis_has and dis_true else 'falsy/absent'} is instantiated {len(calls)} times (expected {1 if should else 0})", f"count|{should}|{len(calls)}")
            for e in calls:
                if list(e.args) != [extra] or e.kwargs.get("key") is not extra:
                    fail("C14.O1", f"mode constructor called with {e.args} {e.kwargs}; expected the selector's extra arguments", "args")
        # nothing is instantiated from a module whose import failed
        for i, e in enumerate(p.trace):
            if e.kind == "fault" and e.name == "import:module":
                rest = p.trace[i + 1:]
                nxt = next((j for j, x in enumerate(rest) if x.kind == "ext" and x.name == "importlib.import_module"), len(rest))
                stale = [x for x in rest[:nxt] if x.kind == "ext" and x.name == "inspect.getmembers" and x.args and x.args[0] is not None]
                if stale:
                    fail("C14.O1", "after a module failed to import (tolerated with the FMS attached) the scan still inspects a module object - classes of another module are instantiated again", "stale-module")
        # O2 fault policy
        if p.outcome == "raise":
            en = fn.exc_name(p.value)
            if fms is True and not pkg_fault:
                fail("C14.O2", f"with the FMS attached the constructor still raises {en} {getattr(p.value.exc, 'fields', {}).get('args', '')}", f"fms-raise|{en}")
            if pkg_fault:
                other = [v for a, v in atoms if a[0] == "streq"]
                if any(other):
                    fail("C14.O2", "a missing autonomous package raises instead of being tolerated", "pkg-missing")
            continue
        if p.outcome != "return":
            continue
        n_ret += 1
        sel = p.value
        modes = next((v for v in sel.fields.values() if isinstance(v, DictV)), None)
        if fms is False:
            kinds = {e.name.split(":")[0] + ":" + e.name.split(":")[1][:6] for e in faults if e.name != "import:package"}
            if kinds:
                fail("C14.O2", f"without the FMS the constructor completes although {sorted(kinds)} failed; expected the error to propagate at start-up", f"nofms|{sorted(kinds)}")
            dup = [v for a, v in atoms if a[0] == "streq" and "MODE_NAME" in str(a) and v]
            if dup:
                fail("C14.O2", "without the FMS two modes with the same MODE_NAME are accepted; expected an error at start-up", "nofms-dup")
        if pkg_fault:
            if any(v for a, v in atoms if a[0] == "streq") is False:
                fail("C14.O2", "an ImportError raised from inside the autonomous package is swallowed as if the package were missing", "pkg-inner")
            continue
        if modes is None:
            fail("C14.O3", "the selector has no mode map", "nomap")
            continue
        insts = [e.extra for es in ctor_calls.values() for e in es if isinstance(e.extra, Ext)]
        reg = list(modes.items.values())
        for inst in insts:
            if not any(x is inst for x in reg):
                fail("C14.O2", "a mode that was constructed successfully is not registered (healthy / duplicate-named modes must still be offered with the FMS attached)", "unregistered")
        if len(reg) != len(insts):
            fail("C14.O2", f"{len(reg)} modes registered for {len(insts)} constructed", "regcount")
        # O3 chooser
        offers = [e for e in p.trace if e.kind == "ext" and (e.name.endswith(".addOption") or e.name.endswith(".setDefaultOption"))]
        defaults = 0
        for k, v in modes.items.items():
            mine = [e for e in offers if len(e.args) == 2 and e.args[1] is v]
            if len(mine) != 1 or not _same(mine[0].args[0], k):
                fail("C14.O3", f"a registered mode is offered {len(mine)} times / under a key different from its registration key", "offer")
                continue
            d_has = next((val for a, val in atoms if a[0] == "hasattr" and v.path in str(a) and "DEFAULT" in str(a)), None)
            d_true = next((val for a, val in atoms if a[0] == "truthy" and v.path + ".DEFAULT" in str(a[-1])), None)
            is_def = bool(d_has and d_true)
            defaults += is_def
            if mine[0].name.endswith(".setDefaultOption") != is_def:
                fail("C14.O3", f"a mode with DEFAULT {'truthy' if is_def else 'falsy'} is offered through {mine[0].name.rsplit('.', 1)[-1]}", f"default|{is_def}")
        none_opts = [e for e in offers if e.args and e.args[0] == "None"]
        if not any(e.name.endswith(".addOption") for e in none_opts):
            fail("C14.O3", "the 'None' choice is not added", "none")
        if defaults == 0 and not any(e.name.endswith(".setDefaultOption") and e.args[1] is None for e in none_opts):
            fail("C14.O3", "no mode is marked DEFAULT but 'None' is not made the default choice", "none-default")
        if defaults > 1 and fms is False:
            fail("C14.O2", "several DEFAULT modes are accepted without the FMS; expected an error at start-up", "multi-default")
        if clean_world is None and not faults and len(reg) == 2 and not any(v for a, v in atoms if a[0] == "streq"):
            clean_world = {"selector": sel}
    for r in ("C14.O1", "C14.O2", "C14.O3"):
        if not any(o[0] == r and not o[2] for o in ctx.obligations):
            ctx.ok(r, f"{r} held on all {len(paths)} constructor paths ({n_ret} completing)")
    if clean_world is None:
        if not ctx.violations:
            raise fn.AnalysisError("no fault-free constructor path with two modes found")
        return
    lifecycle(ctx, msel, SEL, clean_world)


def _same(a, b):
    return a is b or (type(a) is type(b) and a == b) or repr(a) == repr(b)


# ----------------------------------------------------------------------------------------
class LifeHooks:
    def __init__(self, may_raise=True, inject_disable=False):
        self.events = []
        self.world = None
        self.may_raise = may_raise
        self.budget = 1
        self.inject_disable = inject_disable
        self.fms = None

    def on_decide(self, it, atom, val, node):
        if atom[0] == "truthy" and "isFMSAttached" in str(atom[-1]) and self.fms is None:
            self.fms = val

    def decide(self, it, atom, node):
        if atom[0] == "truthy" and "isFMSAttached" in str(atom[-1]) and self.fms is not None:
            return self.fms
        if atom[0] == "lt0" and "cwt" in repr(atom[2]):
            return False
        return None

    def intercept(self, it, f, vals, node):
        if f.owner is not None and f.owner.name == "SimpleWatchdog" and f.name != "__init__":
            return None
        return NotImplemented

    def on_read(self, it, obj, name, value, node):
        if name == "robot_exit":
            return Sym("volatile:robot_exit", "bool")
        return value

    def ext_call(self, it, f, args, kwargs, node):
        p = f.path
        if p.endswith("SmartDashboard.getString"):
            it.emit("ext", p, args, kwargs, node=node)
            return Sym("dashboard_string", "str")
        if p.endswith(".getSelected"):
            modes = next(v for v in self.world["selector"].fields.values() if isinstance(v, DictV))
            opts = list(modes.items.values()) + [None]
            return opts[it.choose(len(opts), "chooser selection")]
        last = p.rsplit(".", 1)[-1]
        if f.origin == "user" and last in ("on_enable", "on_iteration", "on_disable"):
            mode = f.parent
            self.events.append((last, mode, tuple(args)))
            it.emit("user", p, args, kwargs, node=node, callee=f)
            if self.inject_disable and self.budget and last == "on_iteration" and it.choose(2, "user code calls disable()"):
                self.budget -= 1
                self.events.append(("client-disable", None, ()))
                it.call(it.getattr(self.world["selector"], "disable"), [], {}, node)
            elif self.may_raise and self.budget and it.choose(2, ("raises", last)):
                self.budget -= 1
                self.events.append(("raised", mode, last))
                raise AbsRaise(it.make_exc("UserFault", p), it.site(node))
            return None
        if p == "iter_fn":
            self.events.append(("iter_fn", None, ()))
            if self.inject_disable and self.budget and it.choose(2, "iter_fn calls disable()"):
                self.budget -= 1
                self.events.append(("client-disable", None, ()))
                it.call(it.getattr(self.world["selector"], "disable"), [], {}, node)
            return None
        return NotImplemented


def lifecycle(ctx, msel, SEL, world):
    sel = world["selector"]
    site = lambda n: (msel.filename, SEL.lookup(n)[1].node.lineno, f"AutonomousModeSelector.{n}")
    modes = next(v for v in sel.fields.values() if isinstance(v, DictV))
    keys = list(modes.items.keys())

    # ---- O4 selection
    def run_sel(it, w):
        it.hooks.world = w
        it.call(it.getattr(w["selector"], "start"), [], {})
        return w["selector"]

    ps = fn.all_paths(ctx, run_sel, hooks=lambda: LifeHooks(may_raise=False), world=world)
    ctx.add("paths", len(ps))
    n4 = 0
    for p in ps:
        if p.outcome != "return":
            ctx.fail("C14.O4", f"start() raises {fn.exc_name(p.value)} without any callback fault", site=site("start"), key="C14.O4|raise")
            continue
        s2 = p.value
        ms = next(v for v in s2.fields.values() if isinstance(v, DictV))
        active = next((v for k, v in s2.fields.items() if not isinstance(v, (DictV, bool)) and (v is None or (isinstance(v, Ext) and v.origin == "user"))), "?")
        act = [v for k, v in s2.fields.items() if k == "active_mode"]
        active = act[0] if act else active
        dash_none = next((v for a, v, _ in p.path if a[0] == "isnone" and "dashboard_string" in str(a)), None)
        match = [a for a, v, _ in p.path if a[0] in ("streq", "eq") and v and "dashboard_string" in str(a)]
        chooser = next((c for c, l in p.choices if l == "chooser selection"), None)
        n4 += 1
        if match and dash_none is not True:  # (a string that equals a registered key is not None, whether or not the code asked)
            want = None
            for k, v in ms.items.items():
                if any(repr(k)[1:] in str(a) for a in match):
                    want = v
            ok = want is not None and active is want and chooser is None
            ctx.require(ok, "C14.O4", "dashboard string names a mode -> that mode", "the dashboard's 'Auto Selector' string names a registered mode but another mode / the chooser selection becomes active", site=site("start"), key="C14.O4|dash")
        else:
            opts = list(ms.items.values()) + [None]
            ok = chooser is not None and active is opts[chooser]
            ctx.require(ok, "C14.O4", "otherwise the chooser selection", f"the dashboard string is {'absent' if dash_none else 'not a registered key'} but the active mode {active!r} is not the chooser's selection (choice {chooser} of {opts}; path {[(a[0], v) for a, v, _ in p.path]})", site=site("start"), key="C14.O4|chooser")
        ons = [e for e in p.interp.hooks.events if e[0] == "on_enable"]
        ctx.require(len(ons) == (1 if active is not None else 0) and (not ons or ons[0][1] is active), "C14.O4", "on_enable delivered once, to the active mode", f"on_enable is delivered {len(ons)} times / to a mode that is not the active one", site=site("start"), key="C14.O4|enable")
    ctx.floor("selection paths", n4, 5)  # 2 registered keys matched + 3 chooser outcomes (mode 0, mode 1, nothing)

    # ---- M1 closure over start / periodic / disable
    def actions(w, g):
        if not g["started"]:
            return [("start",), ("disable",)]
        return [("start",), ("periodic",), ("disable",)]

    def run_action(it, w, action):
        it.hooks.world = w
        it.call(it.getattr(w["selector"], action[0]), [], {})
        return None

    def monitor(g, action, events, obs, outcome, w):
        V = []
        name = action[0]
        if isinstance(outcome, tuple) and outcome[0] == "raise":
            en = fn.exc_name(outcome[1])
            if en != "UserFault":
                V.append(("C14.M1", f"{name}() raises {en} {getattr(outcome[1].exc, 'fields', {}).get('args', '')}", None))
                return g, V
        if name == "start":
            g["started"] = True
            if not any(ev[0] == "on_enable" for ev in events) and not (isinstance(outcome, tuple) and outcome[0] == "raise"):
                # this start() selected nothing: from now on no mode is active (a mode left over from an earlier period that
                # was not ended with disable() must not go on receiving callbacks)
                g["active"] = None
                g["phase"] = "idle"
        for ev in events:
            k, mode, args = ev
            mid = None if mode is None else mode.path
            if k == "on_enable":
                if name != "start":
                    V.append(("C14.M1", f"on_enable delivered during {name}()", None))
                g["active"] = mid
                g["phase"] = "enabled"
                g["dead"] = [m for m in g["dead"] if m != mid]
            elif k == "on_iteration":
                if mid in g["dead"]:
                    V.append(("C14.M1", f"on_iteration delivered to a mode after its on_disable() (during {name}())", None))
                elif g["phase"] != "enabled" or g["active"] != mid:
                    V.append(("C14.M1", f"on_iteration delivered to a mode that is not the enabled active mode (during {name}())", None))
            elif k == "on_disable":
                if mid in g["dead"]:
                    V.append(("C14.M1", f"on_disable delivered twice to the same mode without an on_enable in between (during {name}())", None))
                elif g["active"] != mid:
                    V.append(("C14.M1", f"on_disable delivered to a mode that is not active (during {name}())", None))
                g["dead"] = sorted(set(g["dead"]) | {mid})
                if g["active"] == mid:
                    g["phase"] = "idle"
                    g["active"] = None
        return g, V

    r = close(ctx.program, world, {"started": False, "active": None, "phase": "idle", "dead": []}, actions, run_action, monitor, lambda: LifeHooks(may_raise=True))
    ctx.add("states", r.states)
    ctx.add("transitions", r.transitions)
    ctx.add("paths", r.paths)
    ctx.floor("lifecycle typestates", r.states, 5)
    if not r.violations:
        ctx.ok("C14.M1", f"lifecycle monitor held on {r.transitions} transitions of {r.states} typestates")
    for v in r.violations:
        ctx.fail("C14.M1", f"{v.message} [client sequence: {' ; '.join(v.client_seq)}]", site=site("disable"), key=f"C14.M1|{v.message[:60]}")
    if r.samples:
        ctx.sample(r.samples[0])

    # ---- O5 run()
    cwt = Sym("cwt", "num", uid=0)
    iter_fn = Ext("iter_fn", "user", role="userfn")

    def run_run(it, w):
        it.hooks.world = w
        it.MAX_WHILE = 2
        s = w["selector"]
        n0 = len(it.trace)
        it.call(it.getattr(s, "run"), [cwt, iter_fn, None], {})
        return it.trace[n0:], s

    for inject in (False, True):
        ps = fn.all_paths(ctx, run_run, hooks=lambda: LifeHooks(may_raise=not inject, inject_disable=inject), world=world, max_paths=100000)
        ctx.add("paths", len(ps))
        bad = set()
        nrun = 0
        for p in ps:
            evs = p.interp.hooks.events
            fms = p.interp.hooks.fms
            if p.outcome == "raise":
                if fn.exc_name(p.value) == "UserFault" and fms is not True:
                    continue
                bad.add(f"run() raises {fn.exc_name(p.value)} {'although the FMS is attached' if fms else ''}")
                continue
            if p.outcome != "return":
                tr = p.trace
            else:
                tr = p.value[0]
            nrun += 1
            timers = [e for e in tr if e.kind == "ext" and e.name == "wpilib.Timer"]
            starts = [e for e in tr if e.kind == "ext" and e.name.endswith("Timer().start")]
            # the only things done to the period timer are start() and get(): anything else (reset, restart, stop,
            # advanceIfElapsed, ...) moves or freezes the elapsed time that on_iteration receives
            resets = [e for e in tr if e.kind == "ext" and "Timer()." in e.name and e.name.rsplit(".", 1)[-1] not in ("start", "get", "hasElapsed", "isRunning")]
            first_cb = next((i for i, e in enumerate(tr) if e.kind == "user"), len(tr))
            if len(timers) != 1 or len(starts) != 1 or resets or (starts and tr.index(starts[0]) > first_cb):
                bad.add(f"elapsed time: {len(timers)} timers created, {len(starts)} starts, resets {[e.name for e in resets]} - on_iteration(t) must get the time since one timer started before on_enable")
            for k, mode, args in evs:
                if k == "on_iteration":
                    a = args[0] if args else None
                    if not (isinstance(a, Ext) and a.path.endswith("Timer().get()")):
                        bad.add(f"on_iteration receives {a!r}, expected timer.get()")
            # order / nothing after on_disable
            dead = set()
            active = None
            for k, mode, args in evs:
                mid = mode.path if mode is not None else None
                if k == "on_enable":
                    active = mid
                elif k == "on_iteration":
                    if mid in dead:
                        bad.add("on_iteration is delivered to a mode after its on_disable() when disable() is called during the period")
                    elif mid != active:
                        bad.add("on_iteration delivered to a mode that was not enabled")
                elif k == "on_disable":
                    if mid in dead:
                        bad.add("on_disable delivered twice in one period")
                    dead.add(mid)
            if p.outcome == "return" and active is not None and active not in dead and not any(k == "raised" for k, m, a in evs):
                bad.add("run() returns without disabling the active mode")
        for b in sorted(bad):
            ctx.fail("C14.O5", b, site=site("run"), key=f"C14.O5|{b[:50]}")
        if not bad:
            ctx.ok("C14.O5", f"run(): timer / order / final disable correct on {nrun} paths" + (" with disable() called from user code" if inject else ""))
        ctx.floor("paths of run()", nrun, 20)
