"""C13 - AutonomousStateMachine runs once per enable and never loops (typestate closure)."""
from . import smcommon

EXPLANATION = (
    "Typestate closure of magicbot.AutonomousStateMachine (abstract subclasses built through the real decorators; name mangling "
    "keeps its own '__engaged' apart from the base class's and resolves the explicit '_StateMachine__should_engage').  Client: "
    "on_enable / on_iteration(t) / on_disable / done in any order (on_iteration before the first on_enable included).  Monitors: "
    "C13.M1 while armed each on_iteration runs exactly 1 + #next_state_now state functions (as engage(); execute()); C13.M2 "
    "no state function runs in an iteration that starts after the machine finished (done() by a state, expiry of the last state, "
    "on_disable) until on_enable(); C13.M3 the engine never re-enters the first state on its own after done(); C13.M4 the first "
    "call after on_enable() has tm == 0 and initial_call True; plus the C01/C03/C04 monitors that still apply."
)
RULE = "one case = one (typestate, client call, oracle resolution) transition; distinct = reachable typestates"
EXHAUSTIVE = True
OWNED = {"C13.M1", "C13.M2", "C13.M3", "C04.M4", "C03.M1", "C04.M1", "C04.M2", "C04.M3", "CRASH", "ISO"}
RENAME = {"C04.M4": "C13.M4", "C03.M1": "C13.M4b", "C04.M1": "C13.M5", "C04.M2": "C13.M6", "C04.M3": "C13.M7"}


def check(ctx):
    ctx.rule("ISO", "calls on one instance never change the heap reachable from another instance of the same class")
    ctx.assume("python", "clock", "client")
    ctx.rule("C13.M1", "armed on_iteration == engage(); execute(): exactly 1 + #next_state_now state functions run")
    ctx.rule("C13.M2", "no state function in an iteration that begins after the machine finished / before on_enable()")
    ctx.rule("C13.M3", "no engine next_state(first) after an engine done() (no cycling)")
    ctx.rule("C13.M4", "first state call after on_enable(): tm == 0, initial_call True")
    res = smcommon.run_universes(ctx, "AutonomousStateMachine", owned=OWNED)
    smcommon.report(ctx, res, OWNED, RENAME)
    ctx.floor("universes", len(res), 4)
    ctx.floor("typestates", sum(r["states"] for r in res), 200)
