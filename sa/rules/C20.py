"""C20 - crc7 equals the bit-serial CRC-7 (reflected polynomial 0x91) for every message."""
import ast

from .. import fn
from ..framework import AnalysisError
from ..interp import Interp
from ..values import App, Lin, ListV, Sym

EXPLANATION = (
    "Decided from the syntax tree of robotpy_ext/misc/crc7.py: C20.O2 loop shape - crc7 initialises one accumulator to the constant 0, "
    "makes a single in-order pass over its argument (plain for loop, no break/continue/else, no slicing or reordering), returns the "
    "accumulator, and no return statement bypasses the pass; C20.O3 the result does not depend on module state that crc7 itself "
    "writes, and after a call that raises part-way (a non-byte element) the next result equals that of a fresh interpreter (no history "
    "dependence); C20.O4 dataflow - symbolic interpretation of the loop body shows that the data byte and the running "
    "checksum enter the new checksum only through (byte XOR checksum); C20.O1 value-set case split - for each of the 256 values of that "
    "single abstract variable the loop body (constant-folded through the lookup table in the syntax tree) yields the eight-step "
    "bit-serial CRC of that value with polynomial 0x91.  O1+O4 say the body is the reflected CRC byte step; with O2 the equality with "
    "the bit-serial definition follows for every byte string by induction on its length (DESIGN.md section 7, C20)."
)
RULE = "256 case-split obligations (one per value of byte^checksum) + structural obligations on the loop"
EXHAUSTIVE = True
MOD = "robotpy_ext.misc.crc7"
POLY = 0x91


def step8(x):
    for _ in range(8):
        if x & 1:
            x ^= POLY
        x >>= 1
    return x


def check(ctx):
    ctx.assume("python")
    ctx.rule("C20.O1", "for every value v of (byte XOR checksum) in 0..255 the loop body maps to the 8-step bit-serial CRC of v (poly 0x91, LSB first)")
    ctx.rule("C20.O2", "accumulator starts at constant 0; one plain in-order for loop over the argument; the only return is the accumulator after the loop")
    ctx.rule("C20.O3", "crc7 neither reads module state that it writes itself nor declares globals (result independent of call history)")
    ctx.rule("C20.O4", "byte and checksum reach the new checksum only through their XOR")
    f = fn.anchor(ctx, MOD, "crc7")
    node = f.node
    site = fn.site_of(f)
    params = [a.arg for a in node.args.args]
    if not params or len(params) - len(node.args.defaults) > 1:
        raise AnalysisError("crc7 no longer takes the message as its single required argument")
    data = params[0]
    body = [s for s in node.body if not (isinstance(s, ast.Expr) and isinstance(s.value, ast.Constant))]
    loops = [s for s in ast.walk(node) if isinstance(s, (ast.For, ast.While, ast.AsyncFor))]
    rets = [s for s in ast.walk(node) if isinstance(s, ast.Return)]
    top_loops = [s for s in body if isinstance(s, ast.For)]
    ok_shape = len(loops) == 1 and len(top_loops) == 1
    # O3: purity
    globs = [s for s in ast.walk(node) if isinstance(s, (ast.Global, ast.Nonlocal))]
    ctx.require(not globs, "C20.O3", "no global/nonlocal declaration in crc7", "crc7 declares global state: its result can depend on earlier calls", site=(site[0], globs[0].lineno, site[2]) if globs else site, key="C20.O3|global")
    history_after_failed_call(ctx, f, site)
    plain = ok_shape and isinstance(top_loops[0].iter, ast.Name) and top_loops[0].iter.id == data and not top_loops[0].orelse and not [s for s in ast.walk(top_loops[0]) if isinstance(s, (ast.Break, ast.Continue, ast.Return))]
    if globs:
        return
    if not plain:
        # another loop form (iterator / while / helper): decide the same facts on unrollings of the whole function
        ctx.cov["loop_form"] = "not the plain for-loop form: decided on symbolic unrollings of the whole function (lengths 0..17)"
        return unrolled(ctx, f, site)
    ctx.cov["loop_form"] = "plain for loop over the argument: loop-body analysis (induction over all lengths)"
    ctx.require(ok_shape, "C20.O2", "exactly one loop, at the top level of crc7", f"crc7 has {len(loops)} loops ({len(top_loops)} at top level) and returns that bypass them; expected one pass over the data", site=site, key="C20.O2|loops")
    if not ok_shape:
        return
    loop = top_loops[0]
    idx = body.index(loop)
    pre, post = body[:idx], body[idx + 1:]
    good_iter = isinstance(loop.iter, ast.Name) and loop.iter.id == data and isinstance(loop.target, ast.Name)
    ctx.require(good_iter, "C20.O2", "the loop iterates the argument itself, element by element", f"the loop iterates {ast.unparse(loop.iter)!r} instead of the argument '{data}' in order", site=(site[0], loop.lineno, site[2]), key="C20.O2|iter")
    inner = [s for s in ast.walk(loop) if isinstance(s, (ast.Break, ast.Continue, ast.Return))]
    ctx.require(not inner and not loop.orelse, "C20.O2", "no break/continue/return/else in the loop", "the loop can be left early or has an else clause", site=(site[0], loop.lineno, site[2]), key="C20.O2|early")
    only_ret = len(rets) == 1 and post and post[-1] is rets[0] and isinstance(rets[0].value, ast.Name)
    ctx.require(only_ret, "C20.O2", "single return of the accumulator after the loop", f"crc7 has {len(rets)} return statements / returns something other than the accumulator after the pass (a return that bypasses the loop makes the result independent of the data)", site=(site[0], rets[0].lineno if rets else node.lineno, site[2]), key="C20.O2|return")
    if not (good_iter and only_ret) or inner:
        return
    acc = rets[0].value.id
    d = loop.target.id
    # statements between loop and return must not touch the accumulator
    touched = [s for s in post[:-1] for n in ast.walk(s) if isinstance(n, ast.Name) and n.id == acc and isinstance(n.ctx, ast.Store)]
    ctx.require(not touched, "C20.O2", "accumulator not modified after the loop", "the accumulator is modified after the loop", site=site, key="C20.O2|post")
    # initial value
    it = Interp(ctx.program)
    it.module(MOD)
    env0 = fn.run_body(it, f, pre, {data: Sym("data", "any")})
    init = env0.get(acc, None)
    ctx.require(isinstance(init, int) and not isinstance(init, bool) and init == 0, "C20.O2", "accumulator initialised to the constant 0", f"accumulator '{acc}' starts as {init!r}, expected the constant 0", site=site, key="C20.O2|init")
    # O4: symbolic dataflow of the body
    dsym, csym = Sym("byte", "num", uid=0), Sym("csum", "num", uid=0)
    base_env = {k: v for k, v in env0.items() if k not in (acc, data)}

    def run(itp, w):
        env = dict(base_env)
        env.update({d: dsym, acc: csym})
        out = fn.run_body(itp, f, loop.body, env)
        return out[acc]

    paths = fn.all_paths(ctx, run)
    table = None
    bad = []

    def walk(v):
        if isinstance(v, Sym):
            if v in (dsym, csym):
                bad.append(v)
        elif isinstance(v, Lin):
            for a in v.terms:
                walk(a)
        elif isinstance(v, App):
            if v.op == "xor" and set(map(repr, v.args)) == {repr(dsym), repr(csym)}:
                return
            for a in v.args:
                walk(a)

    for p in paths:
        if p.outcome != "return":
            ctx.fail("C20.O1", f"the loop body can raise {fn.exc_name(p.value) if p.outcome == 'raise' else p.value}", site=site, key="C20.O1|raise")
            continue
        walk(p.value)
        for atom, val, s_ in p.path:
            if len(atom) > 2 and isinstance(atom[2], Lin):
                walk(atom[2])
    ctx.require(not bad, "C20.O4", f"byte and checksum occur only as (byte ^ checksum) on all {len(paths)} paths of the loop body", "the new checksum depends on the byte or the old checksum other than through their XOR", site=(site[0], loop.lineno, site[2]), key="C20.O4")
    ctx.add("symbolic_body_paths", len(paths))
    # O1: case split over the 256 values of byte ^ checksum
    wrong = []
    for v in range(256):
        it2 = Interp(ctx.program)
        env = dict(base_env)
        env.update({d: v, acc: 0})
        try:
            out = fn.run_body(it2, f, loop.body, env)[acc]
        except Exception as e:  # AbsRaise (IndexError ...) or unsupported
            out = f"raises {type(e).__name__}: {e}"
        exp = step8(v)
        if out == exp and isinstance(out, int):
            ctx.ok("C20.O1", f"byte^checksum={v}: body -> {exp}")
        else:
            wrong.append((v, out, exp))
    for v, out, exp in wrong[:6]:
        ctx.fail("C20.O1", f"for byte XOR checksum = {v} the loop body yields {out!r}; the bit-serial CRC-7 step (poly 0x91) gives {exp}" + (f" ({len(wrong)} of 256 values differ)" if len(wrong) > 1 else ""), site=(site[0], loop.lineno, site[2]), key=f"C20.O1|{v}")
    ctx.cov["case_split_values"] = 256
    # evidence: the table in the syntax tree
    m = fn.module(ctx, MOD)
    for k, tv in m.ns.items():
        if isinstance(tv, ListV) and len(tv.items) >= 128 and all(isinstance(x, int) for x in tv.items):
            ctx.cov["table_literal"] = f"{k}: {len(tv.items)} integer entries"
    ctx.sample({"case": "byte^checksum = 0x80", "expected": step8(0x80)})
    ctx.sample({"symbolic_body": [repr(p.value) for p in paths[:3]]})
    ctx.floor("case-split obligations", sum(1 for o in ctx.obligations if o[0] == "C20.O1"), 1)


def _subst(v, mapping):
    from ..values import num_add, num_mul

    if isinstance(v, Sym):
        return mapping.get(v, v)
    if isinstance(v, Lin):
        out = v.const
        for a, c in v.terms.items():
            out = num_add(out, num_mul(c, _subst(a, mapping)))
        return out
    if isinstance(v, App):
        args = [_subst(a, mapping) for a in v.args]
        if v.op == "xor":
            x, y = args
            if isinstance(x, int) and x == 0:
                return y
            if isinstance(y, int) and y == 0:
                return x
            from ..values import vkey

            return App("xor", tuple(sorted(args, key=lambda t: repr(vkey(t)))))
        return App(v.op, tuple(args))
    return v


def history_after_failed_call(ctx, f, site):
    """C20.O3: a call that fails part-way (an element that is not a byte) must leave nothing behind that a later call reads"""
    from ..interp import AbsRaise
    from ..values import vkey

    b0, b1 = Sym("byte0", "num", uid=0), Sym("byte1", "num", uid=0)
    ref_it = Interp(ctx.program)
    ref = ref_it.call(f, [ListV([b1])], {})
    it = Interp(ctx.program)
    failed = False
    try:
        it.call(f, [ListV([b0, "not a byte"])], {})
    except AbsRaise:
        failed = True
    except Exception:
        return  # the message form is not interpretable here: the other O3 rules still apply
    if not failed:
        return
    try:
        again = it.call(f, [ListV([b1])], {})
    except AbsRaise as ar:
        ctx.fail("C20.O3", f"after a crc7() call that raised (a non-byte element), the next crc7() call raises {fn.exc_name(ar)}", site=site, key="C20.O3|after-fail|raise")
        return
    ctx.require(vkey(again) == vkey(ref), "C20.O3", "a failed call leaves nothing behind: the next result is that of a fresh interpreter", f"after a crc7() call that raised part-way (a non-byte element), crc7([b]) = {again!r} instead of {ref!r}: the running checksum of the failed call is still in shared state", site=site, key="C20.O3|after-fail")


def unrolled(ctx, f, site):
    """crc7 on lists of 0..LMAX symbolic bytes: R(0) == 0 and R(n+1) == S(b_n ^ R(n)) with S := R(1); S is then case-split.
    LMAX = 17 covers block-wise implementations with blocks of up to 8 bytes (lengths 8 and 16 and their neighbours)."""
    from ..values import vkey

    LMAX = 17
    bs = [Sym(f"byte{i}", "num", uid=0) for i in range(LMAX)]
    R = []
    for n in range(LMAX + 1):
        def run(itp, w, n=n):
            return itp.call(f, [ListV(list(bs[:n]))], {})

        ps = fn.all_paths(ctx, run)
        ctx.add("unrolled_paths", len(ps))
        if len(ps) != 1 or ps[0].outcome != "return":
            if any(p.outcome == "raise" for p in ps):
                ctx.fail("C20.O2", f"crc7 raises {fn.exc_name([p for p in ps if p.outcome == 'raise'][0].value)} on a {n}-byte message", site=site, key="C20.O2|raise")
                return
            raise AnalysisError("crc7 is neither a plain for loop nor branch-free on symbolic unrollings: unrecognised shape")
        R.append(ps[0].value)
    ctx.require(isinstance(R[0], int) and not isinstance(R[0], bool) and R[0] == 0, "C20.O2", "empty message -> 0", f"crc7 of the empty message is {R[0]!r}, expected 0 (zero initial value)", site=site, key="C20.O2|init")
    S = R[1]
    for n in range(1, LMAX):
        from ..values import App as _App

        arg = _subst(_App("xor", (bs[n], R[n])), {})
        want = _subst(S, {bs[0]: arg})
        got = _subst(R[n + 1], {})
        ctx.require(vkey(got) == vkey(want), "C20.O4", f"crc7 of {n + 1} bytes == step(byte{n} ^ crc7 of the first {n})", f"crc7 is not a left fold of one byte step over (byte XOR checksum): for {n + 1} bytes it computes {got!r}, the fold of the 1-byte result gives {want!r}", site=site, key=f"C20.O4|fold{n}")
    wrong = []
    for v in range(256):
        it2 = Interp(ctx.program)
        try:
            out = it2.call(f, [ListV([v])], {})
        except Exception as e:
            out = f"raises {type(e).__name__}"
        exp = step8(v)
        if out == exp and isinstance(out, int):
            ctx.ok("C20.O1", f"byte {v}: -> {exp}")
        else:
            wrong.append((v, out, exp))
    for v, out, exp in wrong[:6]:
        ctx.fail("C20.O1", f"crc7 of the single byte {v} is {out!r}; the bit-serial CRC-7 (poly 0x91) gives {exp}" + (f" ({len(wrong)} of 256 bytes differ)" if len(wrong) > 1 else ""), site=site, key=f"C20.O1|{v}")
    ctx.cov["case_split_values"] = 256
    ctx.sample({"unrolled": [repr(r) for r in R[:3]]})
