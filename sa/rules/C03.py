"""C03 - state functions get correct tm, state_tm, initial_call in any parameter order."""
from . import smcommon

EXPLANATION = (
    "Two typestate closures of magicbot.StateMachine computed from the source on every run.  (1) The machine-shape universes of "
    "C01 with monitors C03.M1 (initial_call is True exactly on the first call after each entry: by engage, next_state - also to "
    "the same state -, expiry of the predecessor or default fallback), C03.M2 (tm is exactly 0 at the first regular call after a "
    "stop), C03.T1 (tm = this call's clock read minus a stored machine start instant that is rewritten only when the machine "
    "(re)starts or cycles) and C03.T2 (state_tm = tm minus the entry time recorded at the initial call; 0 or tm - predecessor "
    "expiry on the initial call).  (2) Sixteen signature universes covering all 16 ordered subsets of (tm, state_tm, "
    "initial_call) on every decorator kind: the adapter built by the real `_State.__init__` (signature inspection + eval of the "
    "lambda template) is interpreted and every declared parameter must receive its own value (a swapped or mis-ordered argument "
    "makes tm/state_tm/initial_call fail their equations or types: C03.A4).  Values are symbolic, so each path stands for all "
    "clock values."
)
RULE = "one case = one (typestate, client call, oracle resolution) transition; distinct = reachable typestates"
EXHAUSTIVE = True
OWNED = {"C03.M1", "C04.M4", "C03.T1", "C03.T2", "C03.A4", "C02.T2", "CRASH", "ISO"}
RENAME = {"C04.M4": "C03.M2", "C02.T2": "C03.T2x"}


def check(ctx):
    ctx.rule("ISO", "calls on one instance never change the heap reachable from another instance of the same class")
    ctx.assume("python", "clock", "client", "inspect")
    ctx.rule("C03.M1", "initial_call == (the last state function called was another state) or (a next_state()/done() call happened since)")
    ctx.rule("C03.M2", "first regular state call after a stop: tm is exactly 0")
    ctx.rule("C03.T1", "tm == clock read of this execute() - stored machine start; the start is rewritten only on (re)start or cycle")
    ctx.rule("C03.T2", "state_tm == tm - entry time of this state (0 on an initial call entered by request, tm - predecessor expiry when entered by expiry)")
    ctx.rule("C03.A4", "every declared parameter receives a value of its own kind (number, number, bool) whatever the declaration order")
    res = smcommon.run_universes(ctx, "StateMachine", owned=OWNED)
    ctx.floor("universes", len(res), 4)
    smcommon.report(ctx, res, OWNED, RENAME)
    sig = smcommon.run_universes(ctx, "StateMachine", mode="sig", owned=OWNED)
    ctx.floor("signature universes", len(sig), 16)
    sigs = set()
    for r in sig:
        for s in r["universe"][len("signatures["):-1].split(";"):
            sigs.add(s.split("(", 1)[1])
    ctx.floor("distinct ordered parameter subsets", len(sigs), 16)
    ctx.cov["signatures"] = len(sigs)
    smcommon.report(ctx, sig, OWNED, RENAME)
