"""Callback skeletons of the MagicRobot mode functions and the rules over them (C05, C06, C07, C10, C11).

Every path of every mode function (abstract robot, generic lists of 0..2 user objects, every exit of the mode
loop, every driver-station answer) is turned into a token sequence of callback events; the sequence is compared
with the *specification skeleton* of DESIGN.md section 7 (C05.O2 / C06.O2-O3 / C10.O1 / C11.O1), projected on the
token kinds each property is about.  Fault paths (one user callback raises) are compared with the same
specification (C07.O2).
"""
from __future__ import annotations

import re

from .. import fn, robot
from ..framework import AnalysisError
from ..interp import Interp
from ..values import Ext, Obj, Sym

ELEM = re.compile(r"^robot\.(\w+)\[\]#(\d+)(.*)$")
MODE_OF = {"_disabled": "disabled", "autonomous": "auto", "_operatorControl": "teleop", "_test": "test"}
INIT_OF = {"_disabled": "disabledInit", "autonomous": "autonomousInit", "_operatorControl": "teleopInit", "_test": "testInit"}
PERIODIC_OF = {"_disabled": "disabledPeriodic", "_operatorControl": "teleopPeriodic", "_test": "testPeriodic"}
COMP_METHODS = ("execute", "on_enable", "on_disable", "setup")
MODE_METHODS = ("on_enable", "on_iteration", "on_disable")


def mode_loop_sites(traces):
    """the mode loop of a function is the outermost loop that contains the NotifierDelay wait (DESIGN.md C05).
    Loops of a generator body nest within that generator only (its body is interleaved with its consumer): the
    loops open on the plain call stack come first, then those of the generators that were running, outermost first."""
    sites = set()
    for tr in traces:
        stacks = {}
        for e in tr:
            ctx = e.gen[-1] if e.gen else None
            if e.kind == "loop_begin":
                stacks.setdefault(ctx, []).append(e.site[:2] if e.site else None)
            elif e.kind == "loop_end":
                if stacks.get(ctx):
                    stacks[ctx].pop()
            elif e.kind == "ext" and e.name == "hal.waitForNotifierAlarm":
                for c in [None] + list(e.gen):  # outermost first: the plain call stack, then enclosing generators
                    if stacks.get(c):
                        sites.add(stacks[c][0])
                        break
    return sites


def tokenize(trace, loop_sites=None):
    out = []
    for e in trace:
        if e.kind == "user":
            n = e.name
            m = ELEM.match(n)
            if m:
                field, idx, rest = m.group(1), int(m.group(2)), m.group(3)
                if rest.endswith(".__dict__.update"):
                    src = e.args[0] if e.args else None
                    ok = isinstance(src, Ext) and ELEM.match(src.path) and ELEM.match(src.path).group(1, 2) == (field, str(idx))
                    out.append(("reset", idx, field, bool(ok), e))
                elif rest == "[0]":
                    out.append(("cb", "fbget", idx, field, e))
                elif rest == "[1]":
                    arg = e.args[0] if e.args else None
                    fresh = isinstance(arg, Ext) and arg.parent is not None and ELEM.match(arg.parent.path or "") and ELEM.match(arg.parent.path).group(1, 2, 3) == (field, str(idx), "[0]")
                    out.append(("set", idx, field, bool(fresh), e))
                else:
                    meth = rest.split(".")[-1]
                    if meth in COMP_METHODS:
                        out.append(("cb", "comp", idx, meth, field, e))
                    else:
                        out.append(("cb", "other", n, e))
            elif n.startswith("robot."):
                out.append(("cb", "robot", n[len("robot."):], e))
            elif n.split(".")[-1] in MODE_METHODS and ("selected_mode" in n or "selector.modes" in n or "active_mode" in n):
                out.append(("cb", "mode", n.split(".")[-1], e))
            else:
                out.append(("cb", "other", n, e))
        elif e.kind == "ext":
            if e.name == "hal.waitForNotifierAlarm":
                out.append(("wait", e))
            elif e.name.endswith(".setString") and "getEntry('mode')" in e.name:
                out.append(("modename", e.args[0] if e.args else None, e.name, e))
            elif e.name == "hal.updateNotifierAlarm":
                out.append(("arm", e.args[1] if len(e.args) > 1 else None, e))
        elif e.kind == "loop_iter" and (e.site[:2] in loop_sites if loop_sites else e.name == "while"):
            out.append(("iter", e.args[0], e.site))
        elif e.kind == "loop_end" and (e.site[:2] in loop_sites if loop_sites else e.name == "while"):
            out.append(("loopend", e.extra, e.site))
        elif e.kind == "fault":
            out.append(("fault", e.name, e))
        elif e.kind == "catch":
            out.append(("catch", e.name, e))
    return out


def short(t):
    if t[0] == "cb":
        if t[1] == "comp":
            return f"component[{t[2]}].{t[3]}"
        if t[1] == "fbget":
            return f"feedback[{t[2]}].getter"
        if t[1] == "robot":
            return t[2]
        if t[1] == "mode":
            return f"mode.{t[2]}"
        return str(t[2])
    if t[0] == "set":
        return f"feedback[{t[1]}].setter"
    if t[0] == "reset":
        return f"reset[{t[1]}]"
    if t[0] == "wait":
        return "WAIT"
    if t[0] == "iter":
        return "ITER"
    return t[0]


def key(t):
    """comparison key of a token (drops the event object)"""
    if t[0] == "cb":
        if t[1] == "comp":
            return ("comp", t[2], t[3])
        if t[1] == "fbget":
            return ("fbget", t[2])
        if t[1] == "robot":
            return ("robot", t[2])
        if t[1] == "mode":
            return ("mode", t[2])
        return ("other", t[2])
    if t[0] == "set":
        return ("set", t[1])
    if t[0] == "reset":
        return ("reset", t[1])
    if t[0] == "wait":
        return ("wait",)
    if t[0] == "iter":
        return ("iter",)
    return None


from ..values import ListOf  # noqa: E402


from ..values import Unsupported  # noqa: E402


class PathInfo:
    def __init__(self, p, func, loop_sites=None):
        self.p = p
        self.func = func
        self.tokens = tokenize(p.trace, loop_sites)
        self.outcome = p.outcome
        atoms = {}
        for a, v, _ in p.path:
            atoms[a] = v
        self.atoms = atoms
        self.lens = {}
        for e in p.trace:
            if e.kind == "loop_begin" and e.name == "for" and e.extra and e.extra[0] == "generic":
                src = e.extra[1]
                label = getattr(src, "label", None) or getattr(getattr(src, "source", None), "label", None)
                if label and label.startswith("robot."):
                    self.lens.setdefault(label[len("robot."):], e.args[0])
        # lists of unknown length consumed some other way (comprehension, filter, map ...): the length this path gave them
        rob = p.world.get("robot") if isinstance(p.world, dict) else None
        for v in (rob.fields.values() if rob is not None else ()):
            label = getattr(v, "label", None)
            if isinstance(v, ListOf) and label and label.startswith("robot.") and v.uid in p.interp.listlen:
                self.lens.setdefault(label[len("robot."):], p.interp.listlen[v.uid])
        self.iters = sum(1 for t in self.tokens if t[0] == "iter")
        ends = [t for t in self.tokens if t[0] == "loopend"]
        # an iteration that leaves through `break` at the driver-station test is partial (no callbacks expected)
        self.partial = bool(ends) and ends[-1][1] == "break"
        self.complete = self.iters - (1 if self.partial else 0)
        self.fault = next((t for t in self.tokens if t[0] == "fault"), None)

    def decided(self, needle, kind=None):
        """value of the first decided atom whose description contains needle"""
        for a, v in self.atoms.items():
            if (kind is None or a[0] == kind) and needle in str(a[-1] if len(a) > 2 else a):
                return v
        return None

    def hook_present(self, idx, meth):
        for a, v in self.atoms.items():
            if a[0] == "isnone" and re.search(rf"\[\]#{idx}\[1\]\.{meth}$", str(a[-1])):
                return not v
        return True  # decided present (fault mode) or never asked

    def fms(self):
        vals = [v for a, v in self.atoms.items() if a[0] == "truthy" and "isFMSAttached" in str(a[-1])]
        return vals


def explore(ctx, info, world, func, fault=False, max_while=2, fixed_len=None):
    budget = (2 if ctx.tier == "thorough" else 1) if fault else 0

    def run(it, w):
        it.MAX_WHILE = 1 if fault else max_while
        if fault or fixed_len is not None:
            it.generic_loop_fixed = 2 if fixed_len is None else fixed_len
        r = w["robot"]
        return it.call(it.getattr(r, func), [], {})

    paths = fn.all_paths(ctx, run, hooks=lambda: robot.RobotHooks(info, budget), world=world, max_paths=600000)
    sites = mode_loop_sites([p.trace for p in paths])
    return [PathInfo(p, func, sites) for p in paths]


def learn_shapes(ctx):
    """What kind of record does the start-up code append to each list the constructor leaves empty?
    A plain tuple stays an opaque user handle (unpacked by position).  An instance of a repository class
    (NamedTuple, dataclass, plain class) becomes a template of that class whose fields are the opaque handles, so that
    its methods are interpreted when a mode function calls them."""
    from ..values import NTuple, Obj as _Obj

    cached = getattr(ctx, "_list_shapes", None)
    if cached is not None:
        return cached
    info, worlds = robot.build(ctx)
    w = worlds[0][0]

    def run(it, world):
        r = world["robot"]
        it.call(it.getattr(r, "_create_components"), [], {})
        return r

    seen = {}
    filled = set()
    uid0 = {k: v.uid for k, v in w["robot"].fields.items() if isinstance(v, ListOf)}
    for p in fn.all_paths(ctx, run, hooks=lambda: CreateHooks(info), world=w, max_paths=50000):
        rob = p.world["robot"]
        for k, u in uid0.items():
            v = rob.fields.get(k)
            if not isinstance(v, ListOf) or v.uid != u:
                filled.add(k)  # start-up assigns a list of its own to this attribute
        for e in p.trace:
            if e.kind in ("listof_append", "listof_extend") and e.name.startswith("robot."):
                filled.add(e.name[len("robot."):])
            if e.kind == "listof_append" and e.name.startswith("robot."):
                v = e.args[1]
                k = e.name[len("robot."):]
                if isinstance(v, NTuple):
                    seen.setdefault(k, set()).add(("nt", v.cls, tuple(v.cls.nt_fields)))
                elif isinstance(v, _Obj) and v.cls.module is not None and not isinstance(v, Ext):
                    seen.setdefault(k, set()).add(("obj", v.cls, tuple(v.fields)))
                else:
                    seen.setdefault(k, set()).add(("opaque",))
    shapes = {}
    for k, kinds in seen.items():
        if len(kinds) != 1:
            raise Unsupported(f"robot.{k} is filled with records of different kinds: {sorted(map(repr, kinds))}")
        kind = next(iter(kinds))
        if kind[0] == "nt":
            shapes[k] = (lambda cls, fields: (lambda elem: NTuple(cls, [Ext(f"{elem.path}.{f}", "user", role="elem") for f in fields])))(kind[1], kind[2])
        elif kind[0] == "obj":
            def mk(cls, fields):
                def make(elem):
                    o = _Obj(cls, {f: Ext(f"{elem.path}.{f}", "user", role="elem") for f in fields}, label=elem.path)
                    o.is_template = True
                    return o
                return make
            shapes[k] = mk(kind[1], kind[2])
    # lists that start-up never touches stay what the constructor made them: empty (per-robot caches and the like)
    shapes["$filled"] = filled
    ctx._list_shapes = shapes
    return shapes


def prepare(ctx):
    info, worlds = robot.build(ctx, shapes=learn_shapes(ctx))
    out = []
    for w, ch, tr in worlds:
        r = w["robot"]
        r.fields["use_teleop_in_autonomous"] = Sym("cfg:use_teleop_in_autonomous", "bool", uid=0)
        r.fields["control_loop_wait_time"] = Sym("cfg:control_loop_wait_time", "num", uid=0)
        per = [k for k, v in r.fields.items() if _periodic_callables(v)]
        out.append((w, per))
    return info, out


def _periodic_callables(v):
    """the robot's own bound methods stored in a container field, in iteration order (a list of (method, name)
    pairs today; any list / dict holding them, as items, keys or values, is recognised)"""
    from ..values import DictV as _D, ListV as _L

    def user_fn(x):
        return isinstance(x, Ext) and x.origin == "user" and x.path.startswith("robot.")

    if isinstance(v, _L):
        entries = v.items
    elif isinstance(v, _D):
        entries = list(v.items.items())
    else:
        return []
    out = []
    for e in entries:
        parts = e if isinstance(e, tuple) else (e,)
        out.extend(x for x in parts if user_fn(x))
    return out


def periodic_tokens(world, per_fields):
    r = world["robot"]
    toks = []
    for f in per_fields:
        for fnv in _periodic_callables(r.fields[f]):
            toks.append(("robot", fnv.path[len("robot."):]))
    return toks


def spec(pi, world, per_fields):
    """specification skeleton (list of token keys) for this path's configuration"""
    func = pi.func
    comp_field = None
    # list roles by use: the list whose elements are executed / enabled is the component list
    nc = nf = nr = 0
    for t in pi.tokens:
        if t[0] == "cb" and t[1] == "comp":
            comp_field = t[4]
    fields = {}
    for name, k in pi.lens.items():
        fields[name] = k
    # roles from any path of the same run are given by the caller through pi.roles
    roles = pi.roles
    nc = fields.get(roles.get("comp"), 0) if roles.get("comp") else 0
    nf = fields.get(roles.get("fb"), 0) if roles.get("fb") else 0
    nr = fields.get(roles.get("reset"), 0) if roles.get("reset") else 0
    enable = [("comp", i, "on_enable") for i in range(nc) if pi.hook_present(i, "on_enable")]
    disable = [("comp", i, "on_disable") for i in range(nc) if pi.hook_present(i, "on_disable")]
    execs = [("comp", i, "execute") for i in range(nc)]
    fbs = []
    for i in range(nf):
        fbs += [("fbget", i), ("set", i)]
    pers = periodic_tokens(world, per_fields)
    resets = [("reset", i) for i in range(nr)]
    it = []
    pre, post = [], []
    if func == "_operatorControl":
        pre = enable + [("robot", INIT_OF[func])]
        it = [("iter",), ("robot", "teleopPeriodic")] + execs + fbs + pers + resets + [("wait",)]
        post = disable
    elif func == "autonomous":
        mode = pi.mode_present
        tia = pi.decided("cfg:use_teleop_in_autonomous")
        pre = enable + [("robot", INIT_OF[func])] + ([("mode", "on_enable")] if mode else [])
        it = [("iter",)] + ([("mode", "on_iteration")] if mode else []) + ([("robot", "teleopPeriodic")] if tia else []) + execs + fbs + pers + resets + [("wait",)]
        post = ([("mode", "on_disable")] if mode else []) + disable
    elif func == "_disabled":
        pre = disable + [("robot", INIT_OF[func])]
        it = [("iter",), ("robot", "disabledPeriodic")] + fbs + pers + [("wait",)]
    elif func == "_test":
        pre = [("robot", INIT_OF[func])]
        it = [("iter",), ("robot", "testPeriodic")] + fbs + pers + [("wait",)]
    return pre, it, post


def find_roles(pis):
    roles = {}
    for pi in pis:
        for t in pi.tokens:
            if t[0] == "cb" and t[1] == "comp" and t[3] == "execute":
                roles.setdefault("comp", t[4])
            elif t[0] == "cb" and t[1] == "fbget":
                roles.setdefault("fb", t[3])
            elif t[0] == "reset":
                roles.setdefault("reset", t[2])
    return roles


def roles_from_enable(group):
    out = {}
    for func, pi in group:
        for t in pi.tokens:
            if t[0] == "cb" and t[1] == "comp":
                out.setdefault("comp", t[4])
    return out


def mode_present(pi):
    """does the selector have an active mode on this path (decided by its own lookups)"""
    for a, v in pi.atoms.items():
        if a[0] == "isnone" and "selected_mode" in str(a[-1]):
            return not v
    for a, v in pi.atoms.items():
        if a[0] == "in" and v:
            return True
    if any(t[0] == "cb" and t[1] == "mode" for t in pi.tokens):
        return True
    return False


def expected_sequence(pi, world, per_fields):
    pre, it, post = spec(pi, world, per_fields)
    seq = list(pre)
    for j in range(pi.complete):
        seq += it
    if pi.partial:
        seq += [("iter",)]
    # a path cut by the loop bound stops at the next loop test; an exiting path runs the epilogue
    if pi.outcome == "abort":
        return seq, False
    return seq + post, True


def project(seq, kinds):
    if callable(kinds):
        return [k for k in seq if k is not None and kinds(k)]
    return [k for k in seq if k is not None and k[0] in kinds]


def compare(actual, expected):
    """first difference between two key sequences -> None or description"""
    n = min(len(actual), len(expected))
    for i in range(n):
        if actual[i] != expected[i]:
            return i, actual[i], expected[i]
    if len(actual) != len(expected):
        return n, (actual[n] if len(actual) > n else None), (expected[n] if len(expected) > n else None)
    return None


def show_key(k):
    if k is None:
        return "(nothing)"
    if k[0] == "comp":
        return f"component[{k[1]}].{k[2]}()"
    if k[0] == "fbget":
        return f"feedback[{k[1]}] getter"
    if k[0] == "set":
        return f"feedback[{k[1]}] setter"
    if k[0] == "reset":
        return f"reset of will_reset_to values [{k[1]}]"
    if k[0] == "robot":
        return f"{k[1]}()"
    if k[0] == "mode":
        return f"autonomous mode {k[1]}()"
    if k[0] == "wait":
        return "NotifierDelay.wait()"
    if k[0] == "iter":
        return "<start of loop iteration>"
    return str(k)


def analyse(ctx, funcs=robot.MODE_FUNCS, fault=False, shared_class=False):
    """-> list of (func, world, per_fields, PathInfo) with roles and mode presence attached.
    shared_class: variant in which every element of every start-up list is an instance of one and the same user class
    (two components of one class), lists of length 2, one loop iteration - for anything keyed by type(component)."""
    info, worlds = prepare(ctx)
    res = []
    ws = worlds if not (fault or shared_class) else worlds[-1:]
    if shared_class:
        from ..closure import clone as _clone

        w2 = _clone(ws[0][0])
        for v in w2["robot"].fields.values():
            if isinstance(v, ListOf):
                v.shared_cls = Ext("SharedComponentClass", "user", role="class")
                v.__dict__.pop("inst", None)
        ws = [(w2, ws[0][1])]
    for w, per in ws:
        group = []
        for func in funcs:
            pis = explore(ctx, info, w, func, fault=fault, max_while=1 if shared_class else 2, fixed_len=2 if shared_class else None)
            group += [(func, pi) for pi in pis]
            ctx.add("paths", len(pis))
            if not fault and not shared_class:
                # second period: the same mode function entered again on the robot a first period left behind
                reps = {}
                for pi in pis:
                    if pi.outcome == "return" and pi.complete >= 1 and pi.lens and all(v >= 1 for v in pi.lens.values()) and pi.p.world is not None:
                        reps.setdefault(pi.decided("cfg:use_teleop_in_autonomous"), pi)
                for rep in reps.values():
                    again = explore(ctx, info, rep.p.world, func, fault=False, max_while=1)
                    for pi in again:
                        pi.second = True
                    group += [(func, pi) for pi in again]
                    ctx.add("paths", len(again))
                    ctx.add("second_period_paths", len(again))
        # list roles are inferred by use over all mode functions of this robot
        roles = find_roles([pi for _, pi in group])
        extra = roles_from_enable(group)
        for k, v in extra.items():
            roles.setdefault(k, v)
        for func, pi in group:
            pi.roles = roles
            pi.mode_present = mode_present(pi)
            res.append((func, w, per, pi))
    ctx.cov["mode_functions"] = len(funcs)
    ctx.cov["robot_variants"] = len(ws)
    return info, res


def skeleton_check(ctx, res, kinds, rule, what, site_of=None):
    """compare every path's tokens with the specification, projected on `kinds`"""
    n = bad = 0
    reported = set()
    for func, w, per, pi in res:
        if pi.outcome == "raise":
            k = (func, "raise")
            if k not in reported:
                reported.add(k)
                ctx.fail(rule, f"{func}() raises {fn.exc_name(pi.p.value)} on a path without any callback fault", site=(robot.ROBOT.replace('.', '/') + ".py", 0, func), key=f"{rule}|{func}|raise")
            continue
        exp, complete = expected_sequence(pi, w, per)
        act = [key(t) for t in pi.tokens]
        a, e = project(act, kinds), project(exp, kinds)
        n += 1
        ro = [ev for ev in pi.p.trace if ev.kind == "reorder"]
        if ro and (func, "reorder") not in reported:
            reported.add((func, "reorder"))
            bad += 1
            ctx.fail(rule, f"{func}(): {what}: a stored callback list is iterated through {ro[0].name}() instead of in its stored order", site=ro[0].site, key=f"{rule}|{func}|reorder")
        d = compare(a, e)
        if d is not None:
            bad += 1
            i, got, want = d
            k = (func, got, want)
            if k in reported:
                continue
            reported.add(k)
            ev = None
            for t in pi.tokens:
                if key(t) == got:
                    ev = t[-1]
            site = getattr(ev, "site", None) or ("magicbot/magicrobot.py", 0, func)
            cfg = f"{pi.lens} mode={'yes' if pi.mode_present else 'no'} iterations={pi.iters}"
            ctx.fail(rule, f"{func}(): {what}: at position {i} of the callback sequence the code does {show_key(got)} where the order requires {show_key(want)} (configuration {cfg}; sequence so far: {' '.join(show_key(x) for x in a[max(0, i - 4):i])})", site=site, key=f"{rule}|{func}|{show_key(got)}|{show_key(want)}")
    if not bad:
        ctx.ok(rule, f"{what}: all {n} paths match the specification skeleton")
    return n


# ----------------------------------------------------------------------------------------
# driver-station predicates (DESIGN.md section 4)
# ----------------------------------------------------------------------------------------
DS_PRED = {
    "isTeleopEnabled": lambda E, A, T: E and not A and not T,
    "isOperatorControlEnabled": lambda E, A, T: E and not A and not T,
    "isAutonomousEnabled": lambda E, A, T: E and A,
    "isTestEnabled": lambda E, A, T: E and T and not A,
    "isEnabled": lambda E, A, T: E,
    "isDisabled": lambda E, A, T: not E,
    "isAutonomous": lambda E, A, T: A,
    "isTest": lambda E, A, T: T,
    "isTeleop": lambda E, A, T: not A and not T,
    "isOperatorControl": lambda E, A, T: not A and not T,
}
VALUATIONS = [(E, A, T) for E in (False, True) for A in (False, True) for T in (False, True) if not (A and T)]


def ds_atoms(pi, lo=0, hi=None):
    """decided driver-station predicates on this path: [(predicate name, value)]"""
    out = []
    for a, v in pi.atoms.items():
        if a[0] == "truthy":
            desc = str(a[-1])
            m = re.search(r"\.(is[A-Z]\w+)\(\)$", desc)
            if m and m.group(1) in DS_PRED and "FMS" not in desc and "Simulation" not in desc:
                out.append((m.group(1), v))
    return out


def consistent(atoms, val):
    return all(bool(DS_PRED[n](*val)) == v for n, v in atoms)


class DispatchHooks(robot.RobotHooks):
    def intercept(self, it, f, vals, node):
        if f.name in robot.MODE_FUNCS and f.owner is not None and f.owner.name == "MagicRobot":
            it.emit("dispatch", f.name, node=node)
            return None
        if f.qualname == "MagicRobot.robotInit":
            return None
        return robot.RobotHooks.intercept(self, it, f, vals, node)


def dispatch_table(ctx, info, world):
    def run(it, w):
        it.MAX_WHILE = 1
        r = w["robot"]
        return it.call(it.getattr(r, "startCompetition"), [], {})

    paths = fn.all_paths(ctx, run, hooks=lambda: DispatchHooks(info), world=world)
    table = {}
    for p in paths:
        disp = [e.name for e in p.trace if e.kind == "dispatch"]
        if not disp:
            continue
        flags = {}
        for a, v, _ in p.path:
            if a[0] == "truthy" and "getControlState()" in str(a[-1]):
                m = re.search(r"getControlState\(\)\[(\d)\]", str(a[-1]))
                if m:
                    flags.setdefault(int(m.group(1)), v)  # the answers of the first query: they select disp[0]
        for val in VALUATIONS:
            if all(val[i] == v for i, v in flags.items()):
                table.setdefault(val, set()).add(disp[0])
    return table, len(paths)


# ----------------------------------------------------------------------------------------
# _create_components: phases of start-up (C05.O3, C06.O1, C08.O4, C10.O3, C11.O5)
# ----------------------------------------------------------------------------------------
from ..values import ListOf, ListV, DictV  # noqa: E402

OPAQUE = ("setup_tunables", "collect_feedbacks", "collect_resets", "get_injection_requests", "find_injections")


class CreateHooks(robot.RobotHooks):
    shared_class = False

    def __init__(self, info):
        robot.RobotHooks.__init__(self, dict(info, skip_create=False))
        self.log = []
        self.shared = Ext("SharedComponentClass", "user", role="class")

    def intercept(self, it, f, vals, node):
        if f.qualname == "MagicRobot._collect_injectables":
            it.emit("phase", "_collect_injectables", [], node=node)
            return DictV()
        if f.name in OPAQUE and f.owner is None:
            args = list(vals.values())
            snap = None
            if f.name == "find_injections":
                inj = args[1]
                snap = list(inj.items.keys()) if isinstance(inj, DictV) else None
            it.emit("phase", f.name, args, node=node, extra=snap)
            if f.name == "collect_feedbacks":
                lo = ListOf((Ext("getter", "user", role="elem"), Ext("setter", "lib", role="elem")), label=f"feedbacks({args[1]!r})")
                lo.owner = args[0]
                return lo
            if f.name == "collect_resets":
                return Ext(f"collect_resets({args[0]!r})", "lib", role="result", maybe_none=False)
            if f.name in ("get_injection_requests", "find_injections"):
                return Ext(f"{f.name}()", "lib", role="instance")
            return None
        return robot.RobotHooks.intercept(self, it, f, vals, node)

    def ext_call(self, it, fn_, args, kwargs, node):
        p = fn_.path
        if p == "typing.get_type_hints":
            e = Ext(f"type_hints({args[0]!r})", "lib", role="instance")
            e.is_hints = args[0]
            return e
        if p.endswith(".items") and getattr(fn_.parent, "is_hints", None) is not None:
            lo = ListOf((Sym("attr", "str", tag="nonnull"), Ext("annotated_type", "user", role="class")), label="type_hints")
            return lo
        if p.endswith(".pop") and getattr(fn_.parent, "is_hints", None) is not None and len(args) == 2:
            return args[1]
        if self.shared_class and p.startswith("annotated_type#") and "." not in p and "(" not in p:
            # variant: all components are instances of one and the same class
            from .. import models

            r = models.ext_call(it, fn_, args, kwargs, node)
            r.attrs[".__class__"] = self.shared
            return r
        return robot.RobotHooks.ext_call(self, it, fn_, args, kwargs, node)


class CreateHooksShared(CreateHooks):
    shared_class = True


def create_paths(ctx, shared=False):
    info, worlds = prepare(ctx)
    w, per = worlds[0]

    def run(it, world):
        r = world["robot"]
        it.call(it.getattr(r, "_create_components"), [], {})
        return r

    def hooks():
        return CreateHooksShared(info) if shared else CreateHooks(info)

    paths = fn.all_paths(ctx, run, hooks=hooks, world=w, max_paths=50000)
    return info, paths


def create_events(p):
    """simplified event list of one _create_components path"""
    out = []
    for e in p.trace:
        if e.kind == "phase":
            out.append(("phase", e.name, e.args, e.extra, e))
        elif e.kind == "user":
            n = e.name
            if n.startswith("annotated_type#") and "." not in n:
                out.append(("create", int(n.split("#")[1].split("(")[0]), e))
            elif n.endswith(".setup"):
                out.append(("setup", n, e))
            elif n.endswith(".__dict__.update"):
                out.append(("dictupdate", n, e))
            elif ".__setattr__" in n or n.endswith(".__setitem__"):
                continue
            elif n.endswith(".values") or n.endswith(".items") or n.endswith(".startswith"):
                continue
            else:
                out.append(("usercall", n, e))
        elif e.kind == "listof_append" or e.kind == "listof_extend":
            out.append((e.kind, e.name, e.args, e))
        elif e.kind == "raise":
            out.append(("raise", e.name, e))
    return out


# ----------------------------------------------------------------------------------------
# fault paths: one user callback raises
# ----------------------------------------------------------------------------------------
def fault_site(pi):
    ev = pi.fault[-1]
    return ev.site


def faulted_key(pi):
    """key of the callback token that raised (the callback token just before the fault marker)"""
    prev = None
    for t in pi.tokens:
        if t[0] == "fault":
            return prev
        if t[0] == "cb":
            prev = key(t)
    return None


def fault_skeleton_check(ctx, res, keep, rule, what):
    """with the FMS attached a single raising callback must not change the callback sequence"""
    n = 0
    reported = set()
    for func, w, per, pi in res:
        if pi.fault is None:
            continue
        fms = pi.fms()
        if not fms or not fms[-1]:
            continue  # not attached / unguarded: judged by C07
        if pi.outcome == "raise":
            continue  # judged by C07.O2
        fk = faulted_key(pi)
        exp, complete = expected_sequence(pi, w, per)
        # every raising getter suppresses its own setter in that iteration (and only that one)
        prev = None
        counts = {}
        drop = set()
        for t in pi.tokens:
            if t[0] == "cb":
                prev = key(t)
                counts[prev] = counts.get(prev, 0) + 1
            elif t[0] == "fault" and prev is not None and prev[0] == "fbget":
                drop.add((prev[1], counts[prev]))
        if drop:
            seen_n = {}
            exp2 = []
            for k in exp:
                if k is not None and k[0] == "set":
                    seen_n[k[1]] = seen_n.get(k[1], 0) + 1
                    if (k[1], seen_n[k[1]]) in drop:
                        continue
                exp2.append(k)
            exp = exp2
        act = [key(t) for t in pi.tokens]
        a, e = project(act, keep), project(exp, keep)
        n += 1
        d = compare(a, e)
        if d is not None:
            i, got, want = d
            k = (func, fk, got, want)
            if k in reported:
                continue
            reported.add(k)
            ctx.fail(rule, f"{func}(): {what}: when {show_key(fk)} raises with the FMS attached the callback sequence changes: at position {i} the code does {show_key(got)} where {show_key(want)} is required (sequence so far: {' '.join(show_key(x) for x in a[max(0, i - 4):i])})", site=fault_site(pi), key=f"{rule}|fault|{func}|{show_key(fk)}|{show_key(want)}")
    if not reported:
        ctx.ok(rule, f"{what}: unchanged on all {n} single-fault paths with the FMS attached")
    return n
