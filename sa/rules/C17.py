"""C17 - Sharp IR distance readings are bounded, monotone and invert the sim model."""
from fractions import Fraction

from .. import expralg as ea
from .. import fn
from ..interp import Interp
from ..framework import AnalysisError
from ..interp import AbsRaise, Interp
from ..values import App, ClassV, Ext, Lin, Obj, Sym

EXPLANATION = (
    "Abstract interpretation of the expression trees of the three Sharp IR drivers and their three simulation twins (symbolic "
    "evaluation of getDistance/setDistance with the voltage resp. distance as a symbol, exact decimal literals): C17.O1 interval "
    "analysis shows the base of every pow() is > 0 for every voltage in [-inf, +inf] (no domain error, finite result); C17.O2 "
    "interval analysis bounds the reading by the documented range of its model; C17.O3 monotonicity analysis (max/min with "
    "constants, a*x^b with a>0, b<0) shows the reading is non-increasing in the voltage; C17.O4 the unclamped reading has the "
    "power-law normal form a*v^b with exactly the constants of the statement, one driver per law; C17.O5 every path of the sim's "
    "setDistance stores the raw distance, and sets the voltage ((clamp(d))/a)^(e) with the driver's own clamp literals, the same a, "
    "and e*b == 1 exactly - the algebraic inverse of the driver's law; getDistance returns the stored raw value.  C17.O6 a reading of one sensor equals its own formula also after a sensor of any model was read at the same voltage in the same interpreter (nothing is shared between sensors)."
)
RULE = "one obligation per (sensor model, rule); all inputs covered symbolically (intervals over the whole real line)"
EXHAUSTIVE = True
DRV = "robotpy_ext.common_drivers.distance_sensors"
SIM = "robotpy_ext.common_drivers.distance_sensors_sim"
F = Fraction
LAWS = {(F("62.28"), F("-1.092")): (F("22.5"), F(145)), (F("26.449"), F("-1.226")): (F(10), F(80)), (F("12.84"), F("-0.9824")): (F("4.5"), F(35))}


def classes_with(m, method):
    out = []
    for k, v in m.ns.items():
        if isinstance(v, ClassV) and v.module is m and v.lookup(method)[1] is not None and v not in out:
            out.append(v)
    return out


class SameVoltage:
    """every analog input reads one and the same symbolic voltage"""

    def __init__(self):
        self.v = Sym("V", "num", tag=("ext", 0), uid=0)

    def ext_call(self, it, fn_, args, kwargs, node):
        if fn_.path.endswith("getVoltage") or fn_.path.endswith("getAverageVoltage"):
            it.emit("ext", fn_.path, args, kwargs, node=node, extra=self.v)
            return self.v
        return NotImplemented


def isolation(ctx, md, drivers):
    from ..values import vkey

    ctx.rule("C17.O6", "a reading of one sensor does not depend on earlier readings of another sensor (same or different model) at the same voltage")
    n = 0
    for B in drivers:
        ref_it = Interp(ctx.program, hooks=SameVoltage())
        try:
            ref = ref_it.call(ref_it.getattr(ref_it.call(B, [Sym("portB", "num")], {}), "getDistance"), [], {})
        except Exception:
            continue  # judged by O1
        for A in drivers:
            it = Interp(ctx.program, hooks=SameVoltage())
            try:
                a = it.call(A, [Sym("portA", "num")], {})
                b = it.call(B, [Sym("portB", "num")], {})
                it.call(it.getattr(a, "getDistance"), [], {})
                got = it.call(it.getattr(b, "getDistance"), [], {})
            except Exception:
                continue
            n += 1
            site = (md.filename, B.node.lineno, B.name + ".getDistance")
            ctx.require(vkey(got) == vkey(ref), "C17.O6", f"{B.name} after {A.name} at the same voltage == {B.name} alone",
                        f"{B.name}.getDistance() returns {got!r} after a {A.name} sensor was read at the same voltage, but {ref!r} on its own: state is shared between sensors", site=site, key=f"C17.O6|{A.name}|{B.name}")
    ctx.floor("sensor pairs checked for isolation", n, 9)
    # constructing a sensor (with every optional constructor parameter given) writes nothing that another sensor reads
    for B in drivers:
        c, init = B.lookup("__init__")
        extra = []
        if init is not None and getattr(fn.func_of(init), "node", None) is not None:
            a = fn.func_of(init).node.args
            extra = [p.arg for p in (a.args[2:] + a.kwonlyargs)]
            if a.kwarg is not None:
                # **options: the names a class-level table of defaults offers
                from ..values import DictV as _D

                for c_ in B.mro:
                    for v_ in c_.ns.values():
                        if isinstance(v_, _D):
                            extra += [k_ for k_ in v_.items if isinstance(k_, str) and k_ not in extra]
        if not extra:
            continue
        it = Interp(ctx.program, hooks=SameVoltage())
        try:
            b0 = it.call(B, [Sym("portB", "num")], {})
            ref = it.call(it.getattr(b0, "getDistance"), [], {})
            it.call(B, [Sym("portC", "num")], {k: Sym("override_" + k, "num", uid=0) for k in extra})
            got = it.call(it.getattr(b0, "getDistance"), [], {})
        except Exception:
            continue
        site = (md.filename, B.node.lineno, B.name + ".__init__")
        ctx.require(vkey(got) == vkey(ref), "C17.O6", f"{B.name}: another instance built with {extra} overridden does not change this one", f"after another {B.name} was constructed with {extra} overridden, an existing default-constructed {B.name} reads {got!r} instead of {ref!r}: per-instance settings are written to class-level state", site=site, key=f"C17.O6|ctor|{B.name}")


def check(ctx):
    ctx.assume("python", "ieee")
    ctx.rule("C17.O1", "base of every pow() has a strictly positive lower bound for voltage in [-inf, inf]")
    ctx.rule("C17.O2", "interval of the returned expression is inside the documented range of the model")
    ctx.rule("C17.O3", "returned expression is non-increasing in the voltage")
    ctx.rule("C17.O4", "unclamped reading == a * max(voltage, eps)^b with (a, b) one of the three datasheet laws; each law implemented once")
    ctx.rule("C17.O5", "sim.setDistance: on every path stores d and sets voltage ((clamp d)/a)^(1/b) with the driver's constants; getDistance returns d")
    md = fn.module(ctx, DRV)
    drivers = classes_with(md, "getDistance")
    ctx.floor("driver classes", len(drivers), 3)
    found = {}
    for K in drivers:
        site = (md.filename, K.node.lineno, K.name + ".getDistance")

        def run(it, w, K=K):
            o = it.call(K, [Sym("port", "num")], {})
            for k_, v_ in list(o.fields.items()):
                if isinstance(v_, (int, F)) and not isinstance(v_, bool):
                    o.fields[k_] = Sym("prev_" + k_.lstrip("_"), "num", tag="prestate", uid=0)  # whatever an earlier call left behind
            r_ = it.call(it.getattr(o, "getDistance"), [], {})
            reads = [e.extra for e in it.trace if e.kind == "ext" and e.name.endswith("getVoltage") or e.kind == "ext" and e.name.endswith("getAverageVoltage")]
            return o, r_, reads

        paths = fn.all_paths(ctx, run)
        ctx.add("paths", len(paths))
        const_paths = []
        for p in paths:
            if p.outcome != "return":
                ctx.fail("C17.O1", f"{K.name}.getDistance can raise {fn.exc_name(p.value) if p.outcome == 'raise' else p.value}", site=site, key=f"C17.O1|{K.name}|raise")
                continue
            obj, R, reads = p.value
            hist = [s for s in (fn.syms_in(R) if not isinstance(R, (int, F)) else []) if s.tag == "prestate"]
            if isinstance(R, Sym) and R.tag == "prestate":
                hist = [R]
            if hist:
                ctx.fail("C17.O2", f"{K.name}.getDistance returns a value that depends on {[h.name for h in hist]}, i.e. on what an earlier call stored: the reading is no longer a (bounded, monotone) function of the current voltage", site=site, key=f"C17.O2|{K.name}|history")
                continue
            if isinstance(R, (int, F)):
                const_paths.append((p, R, reads))
                continue
            volts = [s for s in fn.syms_in(R) if isinstance(s.tag, tuple) and s.tag[0] == "ext"]
            if len(volts) != 1:
                raise AnalysisError(f"{K.name}.getDistance: cannot identify the voltage reading in {R!r}")
            V = volts[0]
            env = {V: (-ea.INF, ea.INF)}
            # O1
            for ps in ea.pow_sites(R):
                lo, hi = ea.interval(ps.args[0], env)
                ctx.require(lo > 0, "C17.O1", f"{K.name}: pow base {ps.args[0]!r} in [{float(lo)}, {hi}]", f"{K.name}.getDistance: the base of pow() can be {float(lo) if lo != -ea.INF else '-inf'} (<= 0) for some voltage: math domain error / infinite result for zero or negative voltage", site=site, key=f"C17.O1|{K.name}")
                ex = ps.args[1] if len(ps.args) > 1 else None
                if isinstance(ex, (int, F)) and not isinstance(ex, bool) and ex > 0:
                    # math.pow raises OverflowError for a large finite base and a positive exponent (it does not for a negative one)
                    ctx.require(hi != ea.INF, "C17.O1", f"{K.name}: pow with positive exponent has a bounded base", f"{K.name}.getDistance raises pow({ps.args[0]!r}, {float(ex)}) with an unbounded base: math.pow overflows (OverflowError) for large finite voltages instead of returning the minimum distance", site=site, key=f"C17.O1|{K.name}|overflow")
            # law
            law = None
            cf = ea.clamp_form(R)
            inner = cf[0] if cf else R
            pl = ea.power_law(inner)
            if pl is None:
                for a in _subterms(R):
                    pl = ea.power_law(a)
                    if pl:
                        break
            if pl is None:
                ctx.fail("C17.O4", f"{K.name}.getDistance is not of the form a * v^b: {R!r}", site=site, key=f"C17.O4|{K.name}")
                continue
            a, X, b = pl
            law = (a, b)
            okX = isinstance(X, App) and X.op == "max" and any(x == V for x in X.args) and all(x == V or (isinstance(x, (int, F)) and 0 < x <= F(1, 1000)) for x in X.args)
            ctx.require(law in LAWS, "C17.O4", f"{K.name}: law {float(a)} * v^{float(b)}", f"{K.name}.getDistance implements {float(a)} * v^{float(b)}, which is none of the datasheet laws 62.28*v^-1.092, 26.449*v^-1.226, 12.84*v^-0.9824", site=site, key=f"C17.O4|{K.name}|law")
            ctx.require(okX, "C17.O4", f"{K.name}: the law is applied to max(voltage, eps) with 0 < eps <= 1 mV", f"{K.name}.getDistance applies its power law to {X!r} instead of the (floored) voltage", site=site, key=f"C17.O4|{K.name}|arg")
            if law in LAWS:
                if law in found and found[law][0] is not K:
                    ctx.fail("C17.O4", f"law {law} implemented by both {found[law][0].name} and {K.name}", site=site, key=f"C17.O4|dup|{K.name}")
                found[law] = (K, cf, obj)
                lo_d, hi_d = LAWS[law]
                lo, hi = ea.interval(R, env)
                good = lo != -ea.INF and hi != ea.INF and lo >= lo_d and hi <= hi_d
                ctx.require(good, "C17.O2", f"{K.name}: reading in [{float(lo) if good else lo}, {float(hi) if good else hi}] within [{float(lo_d)}, {float(hi_d)}]", f"{K.name}.getDistance can return values in [{lo}, {hi}], outside the documented range [{float(lo_d)}, {float(hi_d)}] cm", site=site, key=f"C17.O2|{K.name}")
            m = ea.monotone(R, V, env)
            ctx.require(m in ("dec", "const"), "C17.O3", f"{K.name}: reading is non-increasing in the voltage", f"{K.name}.getDistance is not provably non-increasing in the voltage (analysis result: {m})", site=site, key=f"C17.O3|{K.name}")
            ctx.sample({"driver": K.name, "expression": repr(R), "interval": [str(x) for x in ea.interval(R, env)], "monotone": m})
        # paths that return a literal (special-cased voltage ranges): must be the clamp limit that the law approaches there
        mylaw = next((lw for lw, (Kx, _, _) in found.items() if Kx is K), None)
        for p, c, reads in const_paths:
            if mylaw is None:
                ctx.fail("C17.O4", f"{K.name}.getDistance returns the literal {float(c)} on some path and implements no datasheet law", site=site, key=f"C17.O4|{K.name}|const")
                continue
            lo_d, hi_d = LAWS[mylaw]
            vs = [r.attrs.get("num") for r in reads if hasattr(r, "attrs") and r.attrs.get("num") is not None]
            lower = upper = None
            if vs:
                lower, upper = bounds_on(vs[0], p.path)
            good = (c == hi_d and upper is not None and lower is None) or (c == lo_d and lower is not None and upper is None)
            ctx.require(good, "C17.O3", f"{K.name}: literal {float(c)} returned only at the matching end of the voltage range", f"{K.name}.getDistance returns the literal {float(c)} for voltages in ({lower}, {upper}): not the clamp limit the (non-increasing) reading has there", site=site, key=f"C17.O3|{K.name}|const")
    ctx.require(len(found) == 3, "C17.O4", "each of the three datasheet laws is implemented by one driver", f"only {len(found)} of the three datasheet laws are implemented", site=(md.filename, 1, "module"), key="C17.O4|count")
    # ---- O6 the models do not influence one another (nothing shared between instances of different drivers)
    isolation(ctx, md, drivers)
    # ---- simulation twins
    ms = fn.module(ctx, SIM)
    sims = classes_with(ms, "setDistance")
    ctx.floor("sim classes", len(sims), 3)
    paired = 0
    for S in sims:
        site = (ms.filename, S.node.lineno, S.name + ".setDistance")
        twin = None
        for law, (K, cf, _) in found.items():
            def mk(it, w, K=K, S=S):
                drv = it.call(K, [Sym("port", "num")], {})
                return it.call(S, [drv], {})

            ps = fn.all_paths(ctx, mk)
            if any(p.outcome == "return" for p in ps):
                twin = (law, K, cf)
                break
        if twin is None:
            ctx.fail("C17.O5", f"{S.name} accepts none of the driver classes", site=site, key=f"C17.O5|{S.name}|pair")
            continue
        paired += 1
        law, K, cf = twin
        a, b = law
        d = Sym("d", "num", uid=0)

        def run(it, w, K=K, S=S):
            drv = it.call(K, [Sym("port", "num")], {})
            sim = it.call(S, [drv], {})
            for k, v in list(sim.fields.items()):
                if isinstance(v, (int, F)) and not isinstance(v, bool):
                    sim.fields[k] = Sym("prev_" + k.lstrip("_"), "num", uid=0)  # arbitrary earlier history
            n0 = len(it.trace)
            it.call(it.getattr(sim, "setDistance"), [d], {})
            evs = [e for e in it.trace[n0:] if e.kind == "ext" and e.name.endswith(".setVoltage")]
            back = it.call(it.getattr(sim, "getDistance"), [], {})
            return evs, back

        paths = fn.all_paths(ctx, run)
        ctx.add("paths", len(paths))
        for p in paths:
            if p.outcome != "return":
                ctx.fail("C17.O5", f"{S.name}.setDistance can raise {fn.exc_name(p.value) if p.outcome == 'raise' else p.value}", site=site, key=f"C17.O5|{S.name}|raise")
                continue
            evs, back = p.value
            cond = [f"{a_!r}={v_}" for a_, v_, _ in p.path]
            if len(evs) != 1:
                ctx.fail("C17.O5", f"{S.name}.setDistance sets the voltage {len(evs)} times on the path {cond or '(unconditional)'}: after setDistance(d) the sensor would not read clamp(d)", site=site, key=f"C17.O5|{S.name}|count")
                continue
            Vx = evs[0].args[0]
            ok = False
            why = f"voltage expression {Vx!r}"
            lo_d, hi_d = LAWS[law]
            if isinstance(Vx, App) and Vx.op == "pow" and isinstance(Vx.args[1], (int, F)):
                e = F(Vx.args[1])
                base = Vx.args[0]
                X = None
                a2 = None
                if isinstance(base, (int, F)):
                    X, a2 = F(base) * a, a  # the clamped distance folded to a literal bound on this path
                elif isinstance(base, (Lin, App, Sym)):
                    bl = Lin.of(base)
                    if bl.const == 0 and len(bl.terms) == 1:
                        (atom, c), = bl.terms.items()
                        X, a2 = atom, 1 / c
                if X is not None:
                    cfs = ea.clamp_form(X) if isinstance(X, App) else None
                    if cfs is not None and cfs[0] == d:
                        good_x = (cfs[1], cfs[2]) == (lo_d, hi_d)
                        shown = f"clamp(d, {float(cfs[1])}, {float(cfs[2])})"
                    else:
                        lower, upper = bounds_on(d, p.path)
                        if X == d:
                            good_x = lower is not None and upper is not None and lower >= lo_d and upper <= hi_d
                            shown = f"d with {lower} <= d <= {upper}"
                        elif isinstance(X, (int, F)) and X == hi_d:
                            good_x = lower is not None and lower >= hi_d
                            shown = f"{float(hi_d)} when d >= {lower}"
                        elif isinstance(X, (int, F)) and X == lo_d:
                            good_x = upper is not None and upper <= lo_d
                            shown = f"{float(lo_d)} when d <= {upper}"
                        else:
                            good_x = False
                            shown = repr(X)
                    ok = good_x and a2 == a and e * b == 1
                    why = f"(({shown})/{float(a2)})^{float(e)} against driver law {float(a)}*v^{float(b)} and range [{float(lo_d)}, {float(hi_d)}]"
            ctx.require(ok, "C17.O5", f"{S.name}.setDistance sets {why}: exact inverse of {K.name}", f"{S.name}.setDistance does not set the inverse of {K.name}'s law: {why}", site=site, key=f"C17.O5|{S.name}|inverse")
            ctx.require(back == d, "C17.O5", f"{S.name}.getDistance returns the distance that was set", f"{S.name}.getDistance returns {back!r} after setDistance(d)", site=site, key=f"C17.O5|{S.name}|readback")
        ctx.sample({"sim": S.name, "twin": K.name, "paths": len(paths)})
    ctx.require(paired == 3, "C17.O5", "each driver has a simulation twin", f"{paired} of 3 drivers have a simulation twin", site=(ms.filename, 1, "module"), key="C17.O5|twins")


def _subterms(v):
    out = []
    if isinstance(v, Lin):
        out.append(v)
        for a in v.terms:
            out += _subterms(a)
    elif isinstance(v, App):
        out.append(v)
        for a in v.args:
            out += _subterms(a)
    return out


def bounds_on(d, path):
    """(lower, upper) bounds on the symbol d entailed by the decided comparison atoms of a path"""
    lower = upper = None
    for atom, val, _ in path:
        if atom[0] != "lt0":
            continue
        lin = atom[2]
        if set(lin.terms) != {d}:
            continue
        c = lin.terms[d]
        k = -lin.const / c  # lin < 0  <=>  c*d + const < 0
        if (c > 0) == bool(val):
            upper = k if upper is None else min(upper, k)  # d < k (or d <= k)
        else:
            lower = k if lower is None else max(lower, k)  # d > k (or d >= k)
    return lower, upper
