"""Helpers shared by the rule modules: anchors by public name, symbolic calls, path enumeration."""
from __future__ import annotations

import ast

from .framework import AnalysisError
from .interp import AbsRaise, Chooser, Frame, Interp, PathAbort
from .paths import PathResult
from .values import ClassV, Ext, FuncV, Obj, Sym, Unsupported


def module(ctx, name):
    it = Interp(ctx.program)
    m = it.module(name)
    ctx.used(m.filename)
    return m


def anchor(ctx, modname, *names):
    """Look an anchor up by its public (qualified) name; missing => ANALYSIS-ERROR, never a silent pass."""
    m = module(ctx, modname)
    cur = m
    path = modname
    for n in names:
        path += "." + n
        if isinstance(cur, ClassV):
            c, v = cur.lookup(n)
            if c is None:
                raise AnalysisError(f"anchor {path} not found")
            cur = v
        else:
            ns = cur.ns
            if n not in ns:
                raise AnalysisError(f"anchor {path} not found")
            cur = ns[n]
    return cur


def all_paths(ctx, run, configure=None, hooks=None, world=None, max_paths=20000):
    """Enumerate every resolution of the chooser for `run(interp, world)`."""
    from .closure import clone

    prefix = []
    out = []
    while prefix is not None:
        ch = Chooser(prefix)
        it = Interp(ctx.program, ch, hooks() if callable(hooks) else hooks)
        if configure is not None:
            configure(it)
        w = clone(world) if world is not None else None
        try:
            v = run(it, w)
            out.append(PathResult(it, "return", v, w))
        except AbsRaise as ar:
            out.append(PathResult(it, "raise", ar, w))
        except PathAbort as pa:
            out.append(PathResult(it, "abort", pa.reason, w))
        prefix = ch.next_prefix()
        if len(out) > max_paths:
            raise Unsupported(f"path budget exceeded ({max_paths})")
    return out


def exc_name(ar):
    e = ar.exc if isinstance(ar, AbsRaise) else ar
    return e.cls.name if isinstance(e, Obj) else repr(e)


def func_of(v):
    from .values import BoundMethod, PropertyV, StaticV

    if isinstance(v, BoundMethod):
        return v.func
    if isinstance(v, PropertyV):
        return v.fget
    if isinstance(v, StaticV):
        return v.f
    return v


def site_of(f, node=None):
    f = func_of(f)
    if isinstance(f, FuncV):
        return (f.module.filename, (node or f.node).lineno, f.qualname)
    return None


def run_body(it, f, stmts, env):
    """Interpret a statement list of function f with the given local environment."""
    fr = Frame(f.module, f, closure=f.closure, mangle=f.mangle, owner=f.owner)
    fr.locals.update(env)
    it.frames.append(fr)
    try:
        it.exec_block(stmts, fr)
    finally:
        it.frames.pop()
    return fr.locals


def syms_in(v, acc=None):
    """all Sym atoms occurring in a numeric value"""
    from .values import App, Lin

    acc = set() if acc is None else acc
    if isinstance(v, Sym):
        acc.add(v)
    elif isinstance(v, Lin):
        for a in v.terms:
            syms_in(a, acc)
    elif isinstance(v, App):
        for a in v.args:
            syms_in(a, acc)
    elif isinstance(v, tuple):
        for a in v:
            syms_in(a, acc)
    return acc


def effective_writers(K, field):
    """methods that may write self.<field>: private helpers are replaced by the methods that call them"""
    import ast as _ast

    funcs = {}
    for name, f in K.ns.items():
        node = getattr(func_of(f), "node", None)
        if node is not None:
            funcs.setdefault(node.name, node)
    direct = set()
    calls = {}
    for name, node in funcs.items():
        for n in _ast.walk(node):
            if isinstance(n, _ast.Attribute) and isinstance(n.ctx, _ast.Store) and n.attr == field and isinstance(n.value, _ast.Name) and n.value.id == "self":
                direct.add(name)
            if isinstance(n, _ast.Call) and isinstance(n.func, _ast.Attribute) and isinstance(n.func.value, _ast.Name) and n.func.value.id == "self":
                calls.setdefault(n.func.attr, set()).add(name)
    out = set()
    work = list(direct)
    seen = set()
    while work:
        w = work.pop()
        if w in seen:
            continue
        seen.add(w)
        if w.startswith("_") and not w.startswith("__") and calls.get(w):
            work.extend(calls[w])
        else:
            out.add(w)
    return out
