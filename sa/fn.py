"""Helpers shared by the rule modules: anchors by public name, symbolic calls, path enumeration."""
from __future__ import annotations

import ast

from .framework import AnalysisError
from .interp import AbsRaise, Chooser, Frame, Interp, PathAbort
from .paths import PathResult
from .values import ClassV, Ext, FuncV, Obj, Sym, Unsupported


def module(ctx, name):
    it = Interp(ctx.program)
    m = it.module(name)
    ctx.used(m.filename)
    return m


def anchor(ctx, modname, *names):
    """Look an anchor up by its public (qualified) name; missing => ANALYSIS-ERROR, never a silent pass."""
    m = module(ctx, modname)
    cur = m
    path = modname
    for n in names:
        path += "." + n
        if isinstance(cur, ClassV):
            c, v = cur.lookup(n)
            if c is None:
                raise AnalysisError(f"anchor {path} not found")
            cur = v
        else:
            ns = cur.ns
            if n not in ns:
                raise AnalysisError(f"anchor {path} not found")
            cur = ns[n]
    return cur


def all_paths(ctx, run, configure=None, hooks=None, world=None, max_paths=20000):
    """Enumerate every resolution of the chooser for `run(interp, world)`."""
    from .closure import clone

    prefix = []
    out = []
    while prefix is not None:
        ch = Chooser(prefix)
        it = Interp(ctx.program, ch, hooks() if callable(hooks) else hooks)
        if configure is not None:
            configure(it)
        w = clone(world) if world is not None else None
        try:
            v = run(it, w)
            out.append(PathResult(it, "return", v, w))
        except AbsRaise as ar:
            out.append(PathResult(it, "raise", ar, w))
        except PathAbort as pa:
            out.append(PathResult(it, "abort", pa.reason, w))
        prefix = ch.next_prefix()
        if len(out) > max_paths:
            raise Unsupported(f"path budget exceeded ({max_paths})")
    return out


def exc_name(ar):
    e = ar.exc if isinstance(ar, AbsRaise) else ar
    return e.cls.name if isinstance(e, Obj) else repr(e)


def func_of(v):
    from .values import BoundMethod, PropertyV, StaticV

    if isinstance(v, BoundMethod):
        return v.func
    if isinstance(v, PropertyV):
        return v.fget
    if isinstance(v, StaticV):
        return v.f
    return v


def site_of(f, node=None):
    f = func_of(f)
    if isinstance(f, FuncV):
        return (f.module.filename, (node or f.node).lineno, f.qualname)
    return None


def run_body(it, f, stmts, env):
    """Interpret a statement list of function f with the given local environment."""
    fr = Frame(f.module, f, closure=f.closure, mangle=f.mangle, owner=f.owner)
    fr.locals.update(env)
    it.frames.append(fr)
    try:
        it.exec_block(stmts, fr)
    finally:
        it.frames.pop()
    return fr.locals


def syms_in(v, acc=None):
    """all Sym atoms occurring in a numeric value"""
    from .values import App, Lin

    acc = set() if acc is None else acc
    if isinstance(v, Sym):
        acc.add(v)
    elif isinstance(v, Lin):
        for a in v.terms:
            syms_in(a, acc)
    elif isinstance(v, App):
        for a in v.args:
            syms_in(a, acc)
    elif isinstance(v, tuple):
        for a in v:
            syms_in(a, acc)
    return acc


def effective_writers(K, field):
    """methods that may write self.<field>: private helpers are replaced by the methods that call them.
    A write is an assignment to self.<field>, to something inside it (self.<field>.x = .., self.<field>[i] = ..), or a call
    of a method on it that assigns to its own attributes (a private record class of the same module)."""
    import ast as _ast

    funcs = {}
    for name, f in K.ns.items():
        node = getattr(func_of(f), "node", None)
        if node is not None:
            funcs.setdefault(node.name, node)
    mutators = set()
    mod_ns = getattr(K.module, "ns", {}) if K.module is not None else {}
    for C in mod_ns.values():
        if isinstance(C, ClassV) and C is not K:
            for name, f in C.ns.items():
                node = getattr(func_of(f), "node", None)
                if node is None or name in ("__init__", "__post_init__", "__new__"):
                    continue
                if any(isinstance(n, _ast.Attribute) and isinstance(n.ctx, _ast.Store) and isinstance(n.value, _ast.Name) and n.value.id == "self" for n in _ast.walk(node)):
                    mutators.add(node.name)

    def is_self_field(n):
        return isinstance(n, _ast.Attribute) and n.attr == field and isinstance(n.value, _ast.Name) and n.value.id == "self"

    direct = set()
    calls = {}
    for name, node in funcs.items():
        for n in _ast.walk(node):
            if isinstance(n, _ast.Attribute) and isinstance(n.ctx, _ast.Store) and (is_self_field(n) or is_self_field(n.value)):
                direct.add(name)
            if isinstance(n, _ast.Subscript) and isinstance(n.ctx, _ast.Store) and is_self_field(n.value):
                direct.add(name)
            if isinstance(n, _ast.Call) and isinstance(n.func, _ast.Attribute) and is_self_field(n.func.value) and n.func.attr in mutators:
                direct.add(name)
            if isinstance(n, _ast.Call) and isinstance(n.func, _ast.Attribute) and isinstance(n.func.value, _ast.Name) and n.func.value.id == "self":
                calls.setdefault(n.func.attr, set()).add(name)
    out = set()
    work = list(direct)
    seen = set()
    while work:
        w = work.pop()
        if w in seen:
            continue
        seen.add(w)
        if w.startswith("_") and not w.startswith("__") and calls.get(w):
            work.extend(calls[w])
        else:
            out.add(w)
    return out


# ----------------------------------------------------------------------------------------
# slots: the leaves of an object's own state, wherever the class keeps them (plain attribute, element of a
# stored tuple / NamedTuple, attribute of a private record object).  Role inference works on slots, so that
# regrouping the attributes of a class does not change what is found.
# ----------------------------------------------------------------------------------------
import re as _re

_STEP = _re.compile(r"\.([A-Za-z_$][\w$:]*)|\[(\d+)\]")


def _is_record(v):
    from .values import NTuple

    return isinstance(v, NTuple) or (type(v) is tuple and 0 < len(v) <= 8) or (isinstance(v, Obj) and not isinstance(v, Ext) and getattr(v.cls, "module", None) is not None and v.cls.node is not None)


class SlotView:
    def __init__(self, o):
        self.o = o

    def _leaves(self, v, path, out, depth=0):
        from .values import NTuple

        if depth < 3 and _is_record(v):
            if isinstance(v, NTuple):
                for name, x in zip(v.cls.nt_fields, v):
                    self._leaves(x, f"{path}.{name}", out, depth + 1)
            elif isinstance(v, tuple):
                for j, x in enumerate(v):
                    self._leaves(x, f"{path}[{j}]", out, depth + 1)
            else:
                for k, x in v.fields.items():
                    self._leaves(x, f"{path}.{k}", out, depth + 1)
        else:
            out.append((path, v))

    def items(self):
        out = []
        for k, v in self.o.fields.items():
            self._leaves(v, str(k), out)
        return out

    def keys(self):
        return [k for k, _ in self.items()]

    def __contains__(self, path):
        return any(k == path for k, _ in self.items())

    def __getitem__(self, path):
        for k, v in self.items():
            if k == path:
                return v
        raise KeyError(path)

    def get(self, path, default=None):
        for k, v in self.items():
            if k == path:
                return v
        return default

    def __setitem__(self, path, value):
        from .values import NTuple

        m = _re.match(r"^([A-Za-z_$][\w$:]*)", path)
        root, rest = m.group(1), path[m.end():]
        steps = [(a or None, int(b) if b else None) for a, b in _STEP.findall(rest)]

        def put(cont, steps):
            if not steps:
                return value
            name, idx = steps[0]
            if isinstance(cont, NTuple):
                j = cont.cls.nt_fields.index(name) if name is not None else idx
                items = list(cont)
                items[j] = put(items[j], steps[1:])
                return NTuple(cont.cls, items)
            if isinstance(cont, tuple):
                items = list(cont)
                items[idx] = put(items[idx], steps[1:])
                return tuple(items)
            cont.fields[name] = put(cont.fields[name], steps[1:])
            return cont

        self.o.fields[root] = put(self.o.fields[root], steps)


def slots(o):
    return SlotView(o)


def slot_root(path):
    """the attribute of the object itself that a slot lives in"""
    return _re.match(r"^([A-Za-z_$][\w$:]*)", path).group(1)
