"""Depth-first enumeration of all resolutions of the chooser (= all abstract paths)."""
from __future__ import annotations

import copy

from .interp import AbsRaise, Chooser, Interp, PathAbort
from .values import Unsupported


class PathResult:
    __slots__ = ("interp", "outcome", "value", "world", "choices")

    def __init__(self, interp, outcome, value, world):
        self.interp = interp
        self.outcome = outcome  # 'return' | 'raise' | 'abort'
        self.value = value
        self.world = world
        self.choices = [(c, l) for (_, c, l) in interp.chooser.log]

    @property
    def trace(self):
        return self.interp.trace

    @property
    def path(self):
        return self.interp.path


def explore(program, run, world=None, hooks=None, configure=None, max_paths=200000):
    """Run `run(interp, world_copy)` once per resolution of all choices.  Yields PathResult."""
    prefix = []
    n = 0
    while prefix is not None:
        n += 1
        if n > max_paths:
            raise Unsupported(f"path budget exceeded ({max_paths})")
        ch = Chooser(prefix)
        it = Interp(program, ch, hooks() if callable(hooks) else hooks)
        if configure is not None:
            configure(it)
        w = copy.deepcopy(world) if world is not None else None
        try:
            v = run(it, w)
            res = PathResult(it, "return", v, w)
        except AbsRaise as ar:
            res = PathResult(it, "raise", ar, w)
        except PathAbort as pa:
            res = PathResult(it, "abort", pa.reason, w)
        yield res
        prefix = ch.next_prefix()


def load(program, names):
    """Load repository modules once (shared by all runs)."""
    it = Interp(program)
    return [it.module(n) for n in names], it
