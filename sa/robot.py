"""(C) Abstract MagicRobot for the callback analyses (C05-C07, C10, C11).

The robot object is built by interpreting the real `MagicRobot.__init__` and `robotInit`; component creation
and the selector's discovery are replaced by *summaries* (DESIGN.md appendix A): every list the constructor
initialises empty becomes a list of unknown length of user objects, the selector keeps the constant fields of
its constructor and an unknown mode map.  User-overridable robot methods, component methods, feedback
getters and autonomous-mode methods are user handles: calling them is a *callback event*.
"""
from __future__ import annotations

import ast

from .framework import AnalysisError
from .interp import AbsRaise, Chooser, Interp, PathAbort
from .smworld import user_fn
from .values import BoundMethod, ClassV, DictV, Ext, FuncV, ListOf, ListV, Obj, Sym

ROBOT = "magicbot.magicrobot"
SELECTOR = "robotpy_ext.autonomous.selector"
MODE_FUNCS = ("_disabled", "autonomous", "_test", "_operatorControl")


def robot_callbacks(MR):
    """public MagicRobot methods users override: the *Init / *Periodic hooks (robotInit is internal) and createObjects"""
    out = []
    for name, f in MR.ns.items():
        if not isinstance(f, FuncV) or name.startswith("_"):
            continue
        doc = ast.get_docstring(f.node) or ""
        if "Internal API" in doc:
            continue
        if name.endswith("Init") or name.endswith("Periodic") or name == "createObjects":
            out.append(name)
    return out


def volatile_fields(cls):
    """fields assigned by endCompetition(): another thread may flip them at any time"""
    c, f = cls.lookup("endCompetition")
    out = set()
    if f is None:
        return out
    # exit flags: attributes that endCompetition() sets to a constant True / False (plain assignment); other attributes
    # it touches (resources it releases, ...) are ordinary state
    for st in ast.walk(f.node):
        if not isinstance(st, ast.Assign) or not (isinstance(st.value, ast.Constant) and isinstance(st.value.value, bool)):
            continue
        for n in st.targets:
            if isinstance(n, ast.Attribute) and isinstance(n.value, ast.Name) and n.value.id == "self":
                name = n.attr
                if name.startswith("__") and not name.endswith("__"):
                    name = "_" + c.name.lstrip("_") + name
                out.add(name)
    return out


class RobotHooks:
    """opaque watchdog, summarised construction, volatile exit flags, single-fault injection"""

    def __init__(self, info, fault_budget=0):
        self.info = info
        self.fault_budget = fault_budget
        self.fault_mode = fault_budget > 0
        self.faults = []
        self.fms = None
        self.events = []
        self.world = None

    def intercept(self, it, f, vals, node):
        if f.owner is not None and f.owner.name == "SimpleWatchdog" and f.name != "__init__":
            it.emit("ext", f"watchdog.{f.name}", [v for k, v in list(vals.items())[1:]], node=node)
            return None
        q = f.qualname
        if q == "MagicRobot._create_components" and self.info.get("skip_create", True):
            it.emit("summary", "_create_components", node=node)
            return None
        if q == "AutonomousModeSelector.__init__" and self.info.get("summarise_selector", True):
            summarise_ctor(it, f, vals["self"], "selector")
            it.emit("summary", "AutonomousModeSelector.__init__", node=node)
            return None
        return NotImplemented

    def on_decide(self, it, atom, val, node):
        if atom[0] == "truthy" and "isFMSAttached" in str(atom[-1]) and self.fms is None:
            self.fms = val

    def decide(self, it, atom, node):
        # the FMS does not come and go between two reads of one control-loop iteration
        if atom[0] == "truthy" and "isFMSAttached" in str(atom[-1]) and self.fms is not None:
            return self.fms
        # in fault mode optional component hooks are taken to be present (their absence is explored without faults)
        if atom[0] == "isnone" and "[]#" in str(atom[-1]):
            # optional component hooks: absence is explored for the first list element, without faults
            if self.fault_mode or "[]#0" not in str(atom[-1]):
                return False
        if atom[0] == "lt0" and len(atom[2].terms) == 1 and "cfg:control_loop_wait_time" in repr(atom[2]) and atom[2].const < 0:
            return False  # configuration bound: control_loop_wait_time >= 1 ms (NotifierDelay rejects less)
        return None

    def on_read(self, it, obj, name, value, node):
        if name in self.info["volatile"].get(obj.cls.mro[-1].name if False else _owner_name(obj, name, self.info), ()):
            return Sym(f"volatile:{name}", "bool")
        return value

    def ext_call(self, it, fn, args, kwargs, node):
        if fn.path.endswith(".getSelected"):
            it.emit("ext", fn.path, args, kwargs, node=node, callee=fn)
            return Ext("selected_mode", "user", role="result", maybe_none=True)
        if fn.origin == "user" and self.fault_budget > 0 and is_callback_path(fn.path):
            ev = it.emit("user", fn.path, args, kwargs, node=node, callee=fn)
            if it.choose(2, ("fault", fn.path)):
                self.fault_budget -= 1
                self.faults.append(ev)
                ev.extra = "raised"
                it.emit("fault", fn.path, node=node, callee=fn)
                # (the payload holds a list: exception arguments are arbitrary user data, not necessarily hashable)
                raise AbsRaise(it.make_exc("UserFault", fn.path, ListV(["payload"])), it.site(node))
            r = Ext(f"{fn.path}()", "user", role="result", maybe_none=True, parent=fn)
            return r
        return NotImplemented


def _owner_name(obj, name, info):
    for cname, fields in info["volatile"].items():
        if name in fields and any(c.name == cname for c in obj.cls.mro):
            return cname
    return None


def summarise_ctor(it, init, obj, label):
    """flow-insensitive summary of a constructor: constant fields kept, containers / calls become unknown handles"""
    seen = {}
    # the constructor and every method of the class it reaches through self.<method>(...) calls
    nodes, work, done = [], [init.node], set()
    cls = obj.cls
    while work:
        fnode = work.pop()
        if id(fnode) in done:
            continue
        done.add(id(fnode))
        nodes.append(fnode)
        for n in ast.walk(fnode):
            if isinstance(n, ast.Call) and isinstance(n.func, ast.Attribute) and isinstance(n.func.value, ast.Name) and n.func.value.id == "self":
                nm = n.func.attr
                if nm.startswith("__") and not nm.endswith("__"):
                    nm = "_" + cls.name.lstrip("_") + nm
                c_, m_ = cls.lookup(nm)
                m_ = getattr(m_, "f", m_)
                if isinstance(m_, FuncV) and m_.node is not None:
                    work.append(m_.node)
    for n in (x for fnode in nodes for x in ast.walk(fnode)):
        if isinstance(n, ast.Assign):
            for t in n.targets:
                if isinstance(t, ast.Attribute) and isinstance(t.value, ast.Name) and t.value.id == "self":
                    seen.setdefault(t.attr, []).append(n.value)
    for attr, vals in seen.items():
        if len(vals) == 1 and isinstance(vals[0], ast.Constant):
            obj.fields[attr] = vals[0].value
        elif all(isinstance(v, (ast.Dict, ast.List)) for v in vals):
            obj.fields[attr] = Ext(f"{label}.{attr}", "user", role="instance")
        else:
            obj.fields[attr] = Ext(f"{label}.{attr}", "lib", role="instance")


def build(ctx, hooks_cls=RobotHooks, use_teleop_in_autonomous=None, shapes=None):
    """-> (info, [worlds])  one world per resolution of robotInit's environment forks (simulation or not)"""
    prog = ctx.program
    it0 = Interp(prog)
    mr = it0.module(ROBOT)
    sel = it0.module(SELECTOR)
    ctx.used(mr.filename, sel.filename, "robotpy_ext/misc/precise_delay.py")
    MR = mr.ns.get("MagicRobot")
    SEL = sel.ns.get("AutonomousModeSelector")
    if not isinstance(MR, ClassV) or not isinstance(SEL, ClassV):
        raise AnalysisError("anchors MagicRobot / AutonomousModeSelector not found")
    cbs = robot_callbacks(MR)
    if len(cbs) < 8:
        raise AnalysisError(f"only {len(cbs)} user hooks found on MagicRobot: {cbs}")
    info = {"callbacks": cbs, "volatile": {"MagicRobot": volatile_fields(MR), "AutonomousModeSelector": volatile_fields(SEL)}, "MR": MR, "SEL": SEL}
    if not info["volatile"]["MagicRobot"] or not info["volatile"]["AutonomousModeSelector"]:
        raise AnalysisError("endCompetition() sets no exit flag")
    ns = {"__annotations__": DictV(), "__doc__": None}
    for cb in cbs:
        f = user_fn(cb, ())
        f.path = f"robot.{cb}"
        ns[cb] = f
    UR = ClassV("UserRobot", [MR], ns, mr, None, "UserRobot", mutable=False)
    UR.abstract_user = True

    def open_attrs(it, obj, name, node):
        key = "$user:" + str(name)
        if key not in obj.fields:
            obj.fields[key] = Ext(f"robot.{name}", "user", role="instance", maybe_none=True)
        return obj.fields[key]

    UR.open_attrs = open_attrs
    worlds = []
    prefix = []
    while prefix is not None:
        ch = Chooser(prefix)
        hooks = hooks_cls(info)
        it = Interp(prog, ch, hooks)
        robot = Obj(UR)
        try:
            init = MR.lookup("__init__")[1]
            it.call(BoundMethod(init, robot), [], {})
            # lists the constructor leaves empty are filled during start-up with user objects
            for k, v in list(robot.fields.items()):
                if isinstance(v, ListV) and not v.items and (not shapes or "$filled" not in shapes or k in shapes["$filled"]):
                    elem = Ext(f"robot.{k}[]", "user", role="elem")
                    if shapes and k in shapes:
                        elem = shapes[k](elem)  # record type found at the start-up code's append() to this list
                    lo = ListOf(elem, label=f"robot.{k}")
                    robot.fields[k] = lo
            it.call(it.getattr(robot, "robotInit"), [], {})
            if use_teleop_in_autonomous is not None:
                robot.fields["use_teleop_in_autonomous"] = use_teleop_in_autonomous
            worlds.append(({"robot": robot}, [(c, l) for (_, c, l) in ch.log], [e for e in it.trace]))
        except AbsRaise as ar:
            raise AnalysisError(f"robotInit raises {ar} on the abstract robot")
        except PathAbort:
            pass
        prefix = ch.next_prefix()
    if not worlds:
        raise AnalysisError("no start-up path of the abstract robot")
    return info, worlds


def is_callback(ev):
    return ev.kind == "user" and not ev.name.endswith(".__dict__.update") and ".__setattr__" not in ev.name


def cb_name(ev):
    """normalised callback label: robot.teleopPeriodic, component[i].execute, feedback[i].get, mode.on_iteration ..."""
    n = ev.name
    return n


import re as _re

_NOT_CB = _re.compile(r"(\[\]#\d+\[1\]$)|(\.__dict__\.update$)|(\.__setattr__$)|(\.__setitem__$)")


def is_callback_path(path):
    """user code the framework *calls back*: not the NetworkTables setter of a feedback pair, not dict updates"""
    return _NOT_CB.search(path) is None
