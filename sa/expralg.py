"""(D) Expression algebra over PyAbs value trees: intervals, monotonicity, exact rational functions.

All arithmetic on literals is exact (decimal literals are Fractions), so identities are decided
over the rationals / reals, not by sampling floats.
"""
from __future__ import annotations

from fractions import Fraction

from .values import App, Lin, Sym, Unsupported, vkey

INF = float("inf")


# ----------------------------------------------------------------------------------------
# intervals
# ----------------------------------------------------------------------------------------
def _mul(a, b):
    if a == 0 or b == 0:
        return 0
    return a * b


def interval(v, env):
    """Enclosing interval (lo, hi) of a numeric value tree; env: Sym -> (lo, hi). Unknown symbols: (-inf, inf)."""
    if isinstance(v, bool):
        return (int(v), int(v))
    if isinstance(v, (int, Fraction)):
        return (v, v)
    if isinstance(v, Sym):
        return env.get(v, (-INF, INF))
    if isinstance(v, Lin):
        lo = hi = v.const
        for a, c in v.terms.items():
            alo, ahi = interval(a, env)
            x, y = _mul(c, alo), _mul(c, ahi)
            lo, hi = lo + min(x, y), hi + max(x, y)
        return (lo, hi)
    if isinstance(v, App):
        if v.op in ("max", "min"):
            ivs = [interval(a, env) for a in v.args]
            f = max if v.op == "max" else min
            return (f(i[0] for i in ivs), f(i[1] for i in ivs))
        if v.op == "pow":
            blo, bhi = interval(v.args[0], env)
            elo, ehi = interval(v.args[1], env)
            if elo != ehi:
                return (-INF, INF)
            e = elo
            if blo <= 0:
                return (-INF, INF)  # domain error possible: reported by the caller through base_positive()
            pts = [_pw(blo, e), _pw(bhi, e)]
            return (min(pts), max(pts))
        if v.op == "mul":
            (alo, ahi), (blo, bhi) = interval(v.args[0], env), interval(v.args[1], env)
            pts = [_mul(x, y) for x in (alo, ahi) for y in (blo, bhi)]
            return (min(pts), max(pts))
        if v.op == "div":
            (alo, ahi), (blo, bhi) = interval(v.args[0], env), interval(v.args[1], env)
            if blo <= 0 <= bhi:
                return (-INF, INF)
            pts = [x / y if abs(y) != INF else 0 for x in (alo, ahi) for y in (blo, bhi)]
            return (min(pts), max(pts))
        if v.op == "abs":
            lo, hi = interval(v.args[0], env)
            if lo >= 0:
                return (lo, hi)
            if hi <= 0:
                return (-hi, -lo)
            return (0, max(-lo, hi))
        return (-INF, INF)
    raise Unsupported(f"interval of {v!r}")


def _pw(b, e):
    if b == INF:
        return INF if e > 0 else (0 if e < 0 else 1)
    if b == 0:
        return 0 if e > 0 else INF
    return float(b) ** float(e)


def pow_sites(v, acc=None):
    acc = [] if acc is None else acc
    if isinstance(v, Lin):
        for a in v.terms:
            pow_sites(a, acc)
    elif isinstance(v, App):
        if v.op == "pow":
            acc.append(v)
        for a in v.args:
            pow_sites(a, acc)
    return acc


# ----------------------------------------------------------------------------------------
# monotonicity   'const' | 'inc' (non-decreasing) | 'dec' (non-increasing) | '?'
# ----------------------------------------------------------------------------------------
def _neg(m):
    return {"inc": "dec", "dec": "inc"}.get(m, m)


def _join(ms):
    ms = [m for m in ms if m != "const"]
    if not ms:
        return "const"
    if all(m == "inc" for m in ms):
        return "inc"
    if all(m == "dec" for m in ms):
        return "dec"
    return "?"


def monotone(v, x, env):
    if isinstance(v, (int, Fraction, bool)):
        return "const"
    if isinstance(v, Sym):
        return "inc" if v == x else "const"
    if isinstance(v, Lin):
        ms = []
        for a, c in v.terms.items():
            m = monotone(a, x, env)
            ms.append(m if c > 0 else _neg(m))
        return _join(ms)
    if isinstance(v, App):
        if v.op in ("max", "min"):
            return _join([monotone(a, x, env) for a in v.args])
        if v.op == "pow":
            mb = monotone(v.args[0], x, env)
            me = monotone(v.args[1], x, env)
            if me != "const":
                return "?"
            elo, ehi = interval(v.args[1], env)
            blo, _ = interval(v.args[0], env)
            if elo != ehi or blo <= 0:
                return "?"
            if elo > 0:
                return mb
            if elo < 0:
                return _neg(mb)
            return "const"
        if v.op == "mul":
            a, b = v.args
            ma, mb = monotone(a, x, env), monotone(b, x, env)
            if mb == "const":
                lo, hi = interval(b, env)
                return ma if lo >= 0 else (_neg(ma) if hi <= 0 else "?")
            if ma == "const":
                lo, hi = interval(a, env)
                return mb if lo >= 0 else (_neg(mb) if hi <= 0 else "?")
            return "?"
        if v.op == "div":
            a, b = v.args
            ma, mb = monotone(a, x, env), monotone(b, x, env)
            if mb == "const":
                lo, hi = interval(b, env)
                return ma if lo > 0 else (_neg(ma) if hi < 0 else "?")
            return "?"
        return "?" if any(monotone(a, x, env) != "const" for a in v.args) else "const"
    return "?"


# ----------------------------------------------------------------------------------------
# power law  a * X^b
# ----------------------------------------------------------------------------------------
def power_law(v):
    """v == a * pow(X, b) with constants a, b  ->  (a, X, b)  else None"""
    if isinstance(v, App) and v.op == "pow":
        v = Lin.of(v)
    if isinstance(v, Lin) and v.const == 0 and len(v.terms) == 1:
        (atom, a), = v.terms.items()
        if isinstance(atom, App) and atom.op == "pow" and isinstance(atom.args[1], (int, Fraction)):
            return (a, atom.args[0], Fraction(atom.args[1]))
    return None


def clamp_form(v):
    """v == max(min(e, hi), lo) or min(max(e, lo), hi) with constant lo <= hi  ->  (e, lo, hi) else None"""
    if not isinstance(v, App) or v.op not in ("max", "min"):
        return None
    consts = [a for a in v.args if isinstance(a, (int, Fraction))]
    rest = [a for a in v.args if not isinstance(a, (int, Fraction))]
    if len(consts) != 1 or len(rest) != 1:
        return None
    inner = rest[0]
    if not isinstance(inner, App) or inner.op == v.op or inner.op not in ("max", "min"):
        return None
    c2 = [a for a in inner.args if isinstance(a, (int, Fraction))]
    r2 = [a for a in inner.args if not isinstance(a, (int, Fraction))]
    if len(c2) != 1 or len(r2) != 1:
        return None
    if v.op == "max":
        lo, hi = consts[0], c2[0]
    else:
        hi, lo = consts[0], c2[0]
    if lo > hi:
        return None
    return (r2[0], Fraction(lo), Fraction(hi))


# ----------------------------------------------------------------------------------------
# rational functions with exact coefficients
# ----------------------------------------------------------------------------------------
class Poly:
    __slots__ = ("t",)

    def __init__(self, t=None):
        self.t = {k: Fraction(c) for k, c in (t or {}).items() if c != 0}

    @staticmethod
    def const(c):
        return Poly({(): c})

    @staticmethod
    def var(name):
        return Poly({((name, 1),): 1})

    def __add__(self, o):
        t = dict(self.t)
        for k, c in o.t.items():
            t[k] = t.get(k, 0) + c
        return Poly(t)

    def scale(self, k):
        return Poly({m: c * k for m, c in self.t.items()})

    def __mul__(self, o):
        t = {}
        for m1, c1 in self.t.items():
            for m2, c2 in o.t.items():
                d = dict(m1)
                for v, e in m2:
                    d[v] = d.get(v, 0) + e
                m = tuple(sorted(d.items()))
                t[m] = t.get(m, 0) + c1 * c2
        return Poly(t)

    def __eq__(self, o):
        return self.t == o.t

    def is_zero(self):
        return not self.t

    def __repr__(self):
        if not self.t:
            return "0"
        return " + ".join(f"{c}*" + "*".join(f"{v}^{e}" for v, e in m) if m else str(c) for m, c in sorted(self.t.items(), key=repr))


class Rat:
    def __init__(self, n, d=None):
        self.n = n
        self.d = d if d is not None else Poly.const(1)

    def __add__(self, o):
        return Rat(self.n * o.d + o.n * self.d, self.d * o.d)

    def __mul__(self, o):
        return Rat(self.n * o.n, self.d * o.d)

    def div(self, o):
        return Rat(self.n * o.d, self.d * o.n)

    def equals(self, o):
        return (self.n * o.d) == (o.n * self.d)

    def __repr__(self):
        return f"({self.n!r}) / ({self.d!r})"


def ratfunc(v, subst=None):
    """Exact rational function of a value tree; uninterpreted applications become variables
    (named by their structure, or by subst[vkey] when given)."""
    subst = subst or {}

    def name(a):
        k = vkey(a)
        return subst.get(k, repr(a))

    def rf(x):
        if isinstance(x, bool):
            return Rat(Poly.const(int(x)))
        if isinstance(x, (int, Fraction)):
            return Rat(Poly.const(x))
        if isinstance(x, Sym):
            return Rat(Poly.var(name(x)))
        if isinstance(x, Lin):
            r = Rat(Poly.const(x.const))
            for a, c in x.terms.items():
                r = r + rf(a) * Rat(Poly.const(c))
            return r
        if isinstance(x, App):
            if vkey(x) in subst:
                return Rat(Poly.var(subst[vkey(x)]))
            if x.op == "mul":
                return rf(x.args[0]) * rf(x.args[1])
            if x.op == "div":
                return rf(x.args[0]).div(rf(x.args[1]))
            if x.op == "pow" and isinstance(x.args[1], int) and not isinstance(x.args[1], bool) and 0 <= x.args[1] <= 6:
                r = Rat(Poly.const(1))
                for _ in range(x.args[1]):
                    r = r * rf(x.args[0])
                return r
            return Rat(Poly.var(name(x)))
        raise Unsupported(f"ratfunc of {x!r}")

    return rf(v)
