"""Abstract value domain of PyAbs (DESIGN.md 3.2).

Concrete Python values (None, bool, int, Fraction, str, bytes, tuple) stand for themselves.
Everything that is not known statically is one of the classes below.  Nothing in this module
imports or executes code of the analysed repository.
"""
from __future__ import annotations

import itertools
from fractions import Fraction


class Unsupported(Exception):
    """A construct outside the analysed subset: the check stops with exit 2."""

    def __init__(self, msg, node=None, filename=None):
        where = ""
        if node is not None and hasattr(node, "lineno"):
            where = f"{filename or '?'}:{node.lineno}: "
        super().__init__(where + msg)


_ids = itertools.count(1)


def fresh_id():
    return next(_ids)


# ----------------------------------------------------------------------------------------
# numbers
# ----------------------------------------------------------------------------------------
class Sym:
    """An unknown of a given kind ('num', 'bool', 'str', 'obj', 'any') with a provenance tag."""

    __slots__ = ("name", "kind", "tag", "uid")

    def __init__(self, name, kind="any", tag=None, uid=None):
        self.name = name
        self.kind = kind
        self.tag = tag
        self.uid = uid if uid is not None else fresh_id()

    def key(self):
        return ("sym", self.name, self.uid)

    def __repr__(self):
        return f"${self.name}"

    def __hash__(self):
        return hash(self.key())

    def __eq__(self, other):
        return isinstance(other, Sym) and self.key() == other.key()

    def __deepcopy__(self, memo):
        return self


class App:
    """Uninterpreted numeric application op(args) used as an atom of affine terms."""

    __slots__ = ("op", "args", "_k")

    def __init__(self, op, args):
        self.op = op
        self.args = tuple(args)
        self._k = None

    def key(self):
        if self._k is None:
            self._k = ("app", self.op, tuple(vkey(a) for a in self.args))
        return self._k

    def __repr__(self):
        return f"{self.op}({', '.join(map(show, self.args))})"

    def __hash__(self):
        return hash(self.key())

    def __eq__(self, other):
        return isinstance(other, App) and self.key() == other.key()

    def __deepcopy__(self, memo):
        return self


class Lin:
    """Affine term  const + sum(coef * atom)  with Fraction coefficients; atoms are Sym or App."""

    __slots__ = ("const", "terms", "_k")

    def __init__(self, const=0, terms=None):
        self.const = Fraction(const)
        self.terms = {a: Fraction(c) for a, c in (terms or {}).items() if c != 0}
        self._k = None

    @staticmethod
    def of(v):
        if isinstance(v, Lin):
            return v
        if isinstance(v, bool):
            return Lin(int(v))
        if isinstance(v, (int, Fraction)):
            return Lin(v)
        if isinstance(v, (Sym, App)):
            return Lin(0, {v: 1})
        raise TypeError(f"not numeric: {v!r}")

    def is_const(self):
        return not self.terms

    def simplify(self):
        """Return a plain number or a bare atom when the term is one, else self."""
        if not self.terms:
            c = self.const
            return int(c) if c.denominator == 1 else c
        if self.const == 0 and len(self.terms) == 1:
            (a, c), = self.terms.items()
            if c == 1:
                return a
        return self

    def add(self, o, sign=1):
        o = Lin.of(o)
        t = dict(self.terms)
        for a, c in o.terms.items():
            t[a] = t.get(a, 0) + sign * c
        return Lin(self.const + sign * o.const, t)

    def scale(self, k):
        k = Fraction(k)
        return Lin(self.const * k, {a: c * k for a, c in self.terms.items()})

    def key(self):
        if self._k is None:
            self._k = ("lin", self.const, tuple(sorted(((a.key(), c) for a, c in self.terms.items()), key=repr)))
        return self._k

    def __hash__(self):
        return hash(self.key())

    def __eq__(self, other):
        return isinstance(other, Lin) and self.key() == other.key()

    def __repr__(self):
        parts = []
        for a, c in sorted(self.terms.items(), key=lambda kv: repr(kv[0])):
            if c == 1:
                parts.append(f"+{a!r}")
            elif c == -1:
                parts.append(f"-{a!r}")
            else:
                parts.append(f"{'+' if c > 0 else '-'}{abs(c)}*{a!r}")
        if self.const != 0 or not parts:
            parts.append(f"{'+' if self.const >= 0 else '-'}{abs(self.const)}")
        s = "".join(parts)
        return s[1:] if s.startswith("+") else s

    def __deepcopy__(self, memo):
        return self


def is_num(v):
    return isinstance(v, (int, Fraction, Lin, App)) and not isinstance(v, bool) or (
        isinstance(v, Sym) and v.kind in ("num", "any")
    )


def num_add(a, b, sign=1):
    return Lin.of(a).add(b, sign).simplify()


def num_mul(a, b):
    la, lb = Lin.of(a), Lin.of(b)
    if la.is_const():
        return lb.scale(la.const).simplify()
    if lb.is_const():
        return la.scale(lb.const).simplify()
    x, y = sorted((la.simplify(), lb.simplify()), key=lambda v: repr(vkey(v)))
    return App("mul", (x, y))


def num_div(a, b):
    la, lb = Lin.of(a), Lin.of(b)
    if lb.is_const():
        if lb.const == 0:
            raise ZeroDivisionError
        return la.scale(1 / lb.const).simplify()
    return App("div", (la.simplify(), lb.simplify()))


# ----------------------------------------------------------------------------------------
# booleans / conditions
# ----------------------------------------------------------------------------------------
class Cond:
    """A boolean whose value is an atom with a polarity; decided lazily by the interpreter."""

    __slots__ = ("atom", "pos")

    def __init__(self, atom, pos=True):
        self.atom = atom
        self.pos = pos

    def negate(self):
        return Cond(self.atom, not self.pos)

    def key(self):
        return ("cond", self.atom, self.pos)

    def __repr__(self):
        return ("" if self.pos else "not ") + show_atom(self.atom)

    def __deepcopy__(self, memo):
        return self

    def __hash__(self):
        return hash(self.key())

    def __eq__(self, o):
        return isinstance(o, Cond) and self.key() == o.key()


def show_atom(atom):
    k = atom[0]
    if k == "lt0":
        return f"({atom[2]!r} < 0)"
    if k == "eq0":
        return f"({atom[2]!r} == 0)"
    return f"{k}({', '.join(str(x) for x in atom[1:])})"


def cmp_cond(op, a, b):
    """Comparison of two numeric values -> bool or Cond over a normalised atom."""
    d = Lin.of(a).add(b, -1)  # a - b
    if d.is_const():
        c = d.const
        return {"<": c < 0, "<=": c <= 0, ">": c > 0, ">=": c >= 0, "==": c == 0, "!=": c != 0}[op]
    neg = d.scale(-1)
    if op == "<":
        return Cond(("lt0", d.key(), d))
    if op == ">":
        return Cond(("lt0", neg.key(), neg))
    if op == "<=":  # a<=b  <=> not (b-a<0)
        return Cond(("lt0", neg.key(), neg), False)
    if op == ">=":
        return Cond(("lt0", d.key(), d), False)
    # canonical sign for equality: make the first (sorted) coefficient positive
    first = sorted(d.terms.items(), key=lambda kv: repr(kv[0].key()))[0][1]
    e = d if first > 0 else neg
    return Cond(("eq0", e.key(), e), op == "==")


# ----------------------------------------------------------------------------------------
# strings
# ----------------------------------------------------------------------------------------
class SymStr:
    """Concatenation of literal pieces and string-valued symbols."""

    __slots__ = ("parts",)

    def __init__(self, parts):
        out = []
        for p in parts:
            if isinstance(p, SymStr):
                seq = p.parts
            else:
                seq = (p,)
            for q in seq:
                if isinstance(q, str):
                    if q == "":
                        continue
                    if out and isinstance(out[-1], str):
                        out[-1] += q
                        continue
                out.append(q)
        self.parts = tuple(out)

    def simplify(self):
        if not self.parts:
            return ""
        if len(self.parts) == 1 and isinstance(self.parts[0], str):
            return self.parts[0]
        return self

    def key(self):
        return ("symstr", tuple(p if isinstance(p, str) else vkey(p) for p in self.parts))

    def __hash__(self):
        return hash(self.key())

    def __eq__(self, o):
        return isinstance(o, SymStr) and self.key() == o.key()

    def __repr__(self):
        return "<" + "".join(p if isinstance(p, str) else "{" + show(p) + "}" for p in self.parts) + ">"

    def __deepcopy__(self, memo):
        return self


def str_concat(*parts):
    return SymStr(parts).simplify()


# ----------------------------------------------------------------------------------------
# heap values
# ----------------------------------------------------------------------------------------
class Obj:
    """Instance of a repository (or modelled builtin) class."""

    def __init__(self, cls, fields=None, label=None):
        self.cls = cls
        self.fields = fields if fields is not None else {}
        self.label = label
        self.uid = fresh_id()

    def __repr__(self):
        return f"<{self.cls.name} {self.label or '#%d' % self.uid}>"


class NTuple(tuple):
    """Instance of a typing.NamedTuple / collections.namedtuple class: a tuple that also answers to field names."""

    def __new__(c, cls, items):
        o = tuple.__new__(c, items)
        o.cls = cls
        return o

    def __deepcopy__(self, memo):
        import copy as _c

        return NTuple(self.cls, [_c.deepcopy(x, memo) for x in self])

    def __repr__(self):
        return f"{self.cls.name}({', '.join(f'{k}={v!r}' for k, v in zip(self.cls.nt_fields, self))})"


class ConstObj(Obj):
    """An immutable singleton instance (enum member): shared by every copy of a world, identity is preserved."""

    def __deepcopy__(self, memo):
        return self


class ListV:
    def __init__(self, items=None):
        self.items = list(items or [])
        self.uid = fresh_id()

    def __repr__(self):
        return "L" + repr(self.items)


class ListOf:
    """A list of unknown length whose elements all look like `elem` (filled in a generic loop)."""

    def __init__(self, elem, label=None):
        self.elem = elem
        self.label = label
        self.uid = fresh_id()

    def __repr__(self):
        return f"ListOf({self.elem!r})"


class DictV:
    def __init__(self, items=None):
        self.items = dict(items or {})
        self.uid = fresh_id()

    def __repr__(self):
        return "D" + repr(self.items)


class IterV:
    """A one-shot iterator (filter / map / iter / generator results): yields its items once."""

    def __init__(self, source, fn=None, kind="iter"):
        self.source = source
        self.fn = fn
        self.kind = kind
        self.consumed = False
        self.items = None  # materialised by next()
        self.pos = 0
        self.uid = fresh_id()

    def __repr__(self):
        return f"<{self.kind} iterator{' (consumed)' if self.consumed else ''}>"


class SetV:
    def __init__(self, items=None):
        self.items = list(items or [])

    def __repr__(self):
        return "S" + repr(self.items)


class Ext:
    """Handle for something outside the repository: a third-party module/class/function/object
    (origin 'lib') or a user-supplied object/callback (origin 'user').  `path` is the access
    trace that produced it, e.g. 'wpilib.DriverStation.isFMSAttached' or
    'ntcore.NetworkTableInstance.getDefault().getTable("/robot").getEntry("mode").setString'."""

    def __init__(self, path, origin="lib", role=None, maybe_none=False, parent=None, callargs=None):
        self.path = path
        self.origin = origin
        self.role = role
        self.maybe_none = maybe_none
        self.parent = parent
        self.callargs = callargs
        self.uid = fresh_id()
        self.attrs = {}

    def __repr__(self):
        return f"<{self.origin}:{self.path}>"


class FuncV:
    def __init__(self, node, module, closure, defaults, kwdefaults, qualname, mangle=None, owner=None):
        self.node = node
        self.module = module
        self.closure = closure  # list of dict frames (innermost first)
        self.defaults = defaults
        self.kwdefaults = kwdefaults
        self.qualname = qualname
        self.mangle = mangle  # class name used for private-name mangling
        self.owner = owner  # ClassV whose body defined this function (for super())
        self.attrs = {}
        self.name = getattr(node, "name", "<lambda>")

    def __repr__(self):
        return f"<fn {self.qualname}>"

    def __deepcopy__(self, memo):
        return self


class BoundMethod:
    def __init__(self, func, self_obj):
        self.func = func
        self.self_obj = self_obj

    def __repr__(self):
        return f"<bound {self.func!r} of {self.self_obj!r}>"


class BuiltinV:
    def __init__(self, name, impl=None):
        self.name = name
        self.impl = impl

    def __repr__(self):
        return f"<builtin {self.name}>"

    def __deepcopy__(self, memo):
        return self


class PropertyV:
    def __init__(self, fget, fset=None):
        self.fget = fget
        self.fset = fset

    def __deepcopy__(self, memo):
        return self


class StaticV:
    def __init__(self, f):
        self.f = f

    def __deepcopy__(self, memo):
        return self


class ClassMethodV:
    def __init__(self, f):
        self.f = f

    def __deepcopy__(self, memo):
        return self


class PartialV:
    def __init__(self, func, args, kwargs):
        self.func = func
        self.args = args
        self.kwargs = kwargs


class ClassV:
    """A class defined in the repository (or a model of a builtin class / an abstract user class)."""

    def __init__(self, name, bases, ns, module=None, node=None, qualname=None, mutable=False):
        self.name = name
        self.bases = list(bases)
        self.ns = ns  # ordered dict name -> value
        self.module = module
        self.node = node
        self.qualname = qualname or name
        self.annotations = {}
        self.mutable = mutable  # universe classes created by an analysis are copied with the world
        self.uid = fresh_id()
        self.mro = self._c3()

    def _c3(self):
        seqs = [list(b.mro) for b in self.bases if isinstance(b, ClassV)] + [
            [b for b in self.bases if isinstance(b, ClassV)]
        ]
        res = [self]
        seqs = [s for s in seqs if s]
        while seqs:
            for s in seqs:
                cand = s[0]
                if not any(cand in t[1:] for t in seqs):
                    break
            else:
                raise Unsupported(f"inconsistent MRO for {self.name}")
            res.append(cand)
            seqs = [[c for c in s if c is not cand] for s in seqs]
            seqs = [s for s in seqs if s]
        return res

    def ext_bases(self):
        out = []
        for c in self.mro:
            for b in c.bases:
                if isinstance(b, Ext) and b not in out and not b.path.startswith("typing."):
                    out.append(b)  # (typing.Generic[...] / Protocol contribute no run-time attributes)
        return out

    def lookup(self, name, start_after=None):
        mro = self.mro
        if start_after is not None:
            mro = mro[mro.index(start_after) + 1:]
        for c in mro:
            if name in c.ns:
                return c, c.ns[name]
        return None, None

    def is_subclass(self, other):
        return other in self.mro

    def __repr__(self):
        return f"<class {self.qualname}>"

    def __deepcopy__(self, memo):
        if not self.mutable:
            return self
        import copy

        new = ClassV.__new__(ClassV)
        memo[id(self)] = new
        new.name, new.module, new.node, new.qualname = self.name, self.module, self.node, self.qualname
        new.mutable = True
        new.uid = self.uid
        new.annotations = dict(self.annotations)
        new.bases = [copy.deepcopy(b, memo) for b in self.bases]
        new.ns = {k: copy.deepcopy(v, memo) for k, v in self.ns.items()}
        new.mro = [copy.deepcopy(c, memo) if c is not self else new for c in self.mro]
        return new


class ModuleV:
    def __init__(self, name, filename, tree):
        self.name = name
        self.filename = filename
        self.tree = tree
        self.ns = {}
        self.loaded = False

    def __repr__(self):
        return f"<module {self.name}>"

    def __deepcopy__(self, memo):
        return self


class _Sentinel:
    def __init__(self, name):
        self.name = name

    def __repr__(self):
        return self.name

    def __deepcopy__(self, memo):
        return self

    def __copy__(self):
        return self


UNRESOLVED = _Sentinel("UNRESOLVED")


class LazyV:
    """A value chosen on first *use* (not on copy); all copies share one cell."""

    def __init__(self, name, options):
        self.name = name
        self.options = options
        self.cell = [UNRESOLVED]
        self.persist = True

    def __repr__(self):
        return f"<lazy {self.name}={'?' if self.cell[0] is UNRESOLVED else self.cell[0]!r}>"


class SuperV:
    def __init__(self, cls, obj):
        self.cls = cls
        self.obj = obj


# ----------------------------------------------------------------------------------------
def vkey(v):
    """Structural, hashable key of a value (used for atoms and canonical forms)."""
    if isinstance(v, (Sym, App, Lin, Cond, SymStr)):
        return v.key()
    if isinstance(v, (Obj,)):
        return ("obj", v.uid)
    if isinstance(v, Ext):
        return ("ext", v.path, v.uid)
    if isinstance(v, tuple):
        return ("tuple",) + tuple(vkey(x) for x in v)
    if isinstance(v, Fraction):
        return ("frac", v.numerator, v.denominator)
    if isinstance(v, (ClassV, FuncV, BuiltinV)):
        return ("ref", repr(v))
    if isinstance(v, (ListV, DictV)):
        return ("cont", v.uid)
    return ("const", type(v).__name__, v)


def show(v):
    if isinstance(v, Fraction):
        return str(float(v)) if v.denominator != 1 else str(v.numerator)
    if isinstance(v, str):
        return repr(v)
    return repr(v)
