"""Check driver: verdicts, exit codes, evidence, known findings (DESIGN.md section 5).

exit 0  every obligation / monitor of the property held (KNOWN-FINDING lines are allowed)
exit 1  `VIOLATION property=<id> replay=<file>` for every violated rule instance
exit 2  `ANALYSIS-ERROR ...`: anchor missing, unsupported construct, instance count below the
        floor, internal error.  A traceback never looks like a violation.
"""
from __future__ import annotations

import argparse
import importlib
import json
import os
import sys
import time
import traceback

from .interp import Program
from .values import Unsupported

VERIF = os.path.dirname(os.path.dirname(os.path.abspath(__file__)))

ASSUMPTIONS = {
    "python": "CPython semantics of the analysed subset (dict insertion order, dict.update keeps positions, dir() covers the MRO, short-circuit evaluation, descriptor protocol, name mangling)",
    "inspect": "inspect.signature(f).parameters lists parameters in declaration order with the five Parameter.kind values",
    "clock": "wpilib.Timer.getFPGATimestamp, RobotController.getFPGATime, time.monotonic, Timer.get() of a started timer are non-decreasing clock reads",
    "ds": "RobotBase.getControlState() returns (enabled, autonomous, test); DriverStation.isTeleopEnabled == E and not A and not T, isAutonomousEnabled == E and A, DSControlWord.isEnabled == E, .isTest == T; the DS never sets A and T together; isFMSAttached() is an arbitrary boolean",
    "hal": "hal.waitForNotifierAlarm(h) returns when the alarm armed by updateNotifierAlarm(h, t) is due (immediately if t is past)",
    "ntcore": "an ntcore entry's get() returns the last value set() from either side; setDefault does not overwrite; topic classes carry the NT type of the same name",
    "ieee": "IEEE-754: max/min and multiplication/division by positive constants are monotone after rounding; math.pow is monotone in its base for a fixed exponent on (0, inf) and finite there",
    "import": "importlib, glob, inspect.getmembers behave as documented",
    "client": "client bounds of DESIGN.md section 7 (state functions do not call engage()/execute(); next_state() targets are non-default states; a done() ends an in-state action script)",
}


class AnalysisError(Exception):
    pass


class Ctx:
    def __init__(self, pid, tier, repo, seed):
        self.pid = pid
        self.tier = tier
        self.repo = repo
        self.seed = seed
        self._program = None
        self.obligations = []  # (rule, text, ok)
        self.violations = []  # dict(rule, message, site, key, detail)
        self.samples = []
        self.cov = {}
        self.assumptions = []
        self.rules_text = {}
        self.files = set()
        self.t0 = time.time()

    @property
    def program(self):
        if self._program is None:
            self._program = Program(self.repo)
            n = len(self._program.files)
            if n < 25:
                raise AnalysisError(f"only {n} source files found under {self.repo} (expected the magicbot and robotpy_ext packages)")
        return self._program

    # ---- recording
    def rule(self, rid, text):
        self.rules_text[rid] = text

    def ok(self, rule, text):
        self.obligations.append((rule, text, True))

    def fail(self, rule, message, site=None, key=None, detail=None):
        self.obligations.append((rule, message, False))
        site_s = None
        if site:
            site_s = f"{site[0]}:{site[1]}" + (f" ({site[2]})" if len(site) > 2 and site[2] else "")
        self.violations.append({"rule": rule, "message": message, "site": site_s, "key": key or f"{rule}|{site[2] if site and len(site) > 2 else ''}|{message[:80]}", "detail": detail})

    def require(self, cond, rule, text_ok, text_fail=None, site=None, key=None, detail=None):
        if cond:
            self.ok(rule, text_ok)
        else:
            self.fail(rule, text_fail or ("NOT: " + text_ok), site, key, detail)
        return bool(cond)

    def floor(self, what, count, minimum):
        self.cov.setdefault("floors", {})[what] = {"found": count, "minimum": minimum}
        if count < minimum and self.violations:
            return  # a tree that already violates the rule may legitimately offer fewer instances
        if count < minimum:
            raise AnalysisError(f"instance count below the floor: {what}: found {count}, confirmed by hand {minimum} - the rule would pass vacuously")

    def sample(self, s):
        if len(self.samples) < 12:
            self.samples.append(s)

    def assume(self, *keys):
        for k in keys:
            if ASSUMPTIONS[k] not in self.assumptions:
                self.assumptions.append(ASSUMPTIONS[k])

    def used(self, *rels):
        self.files.update(rels)

    def add(self, key, n):
        self.cov[key] = self.cov.get(key, 0) + n


def load_known():
    p = os.path.join(VERIF, "known_findings.json")
    if not os.path.exists(p):
        return []
    with open(p) as f:
        return json.load(f).get("open", [])


def run_check(pid, tier, repo, seed, replay=None):
    ctx = Ctx(pid, tier, repo, seed)
    mod = importlib.import_module(f"sa.rules.{pid}")
    try:
        mod.check(ctx)
    except (Unsupported, AnalysisError) as e:
        # rule instances that already failed are reported; the part that could not be analysed is named
        if not ctx.violations:
            raise
        ctx.cov["analysis_incomplete"] = f"{type(e).__name__}: {e}"
        print(f"  (analysis stopped early after the violations below: {type(e).__name__}: {e})")
    return ctx, mod


def write_evidence(ctx, mod, violations_new, known_hits, wall):
    ev_dir = os.path.join(VERIF, "evidence")
    os.makedirs(ev_dir, exist_ok=True)
    n_ob = len(ctx.obligations)
    n_ok = sum(1 for o in ctx.obligations if o[2])
    cov = dict(ctx.cov)
    prog = ctx._program
    files = sorted(ctx.files) if ctx.files else (prog.files if prog else [])
    cov.update(
        {
            "explanation": getattr(mod, "EXPLANATION", mod.__doc__ or ""),
            "obligations": n_ob,
            "discharged": n_ok,
            "evaluations": max(1, cov.get("evaluations", n_ob)),
            "distinct_nontrivial": max(2, cov.get("distinct_nontrivial", len({(o[0], o[1]) for o in ctx.obligations}))),
            "rule": getattr(mod, "RULE", "one obligation per rule instance found in the source; distinct = distinct (rule, construct) pairs"),
            "samples": ctx.samples or [{"obligation": o[0], "text": o[1], "holds": o[2]} for o in ctx.obligations[:5]],
            "rules": ctx.rules_text,
            "files_analysed": files,
            "source_digest": prog.digest(set(files)) if prog else None,
            "checker_cmd": f"bin/check {ctx.pid} --tier {ctx.tier}",
            "failed": [o[1] for o in ctx.obligations if not o[2]][:20],
            "known_findings_matched": known_hits,
        }
    )
    cov.setdefault("programs", len(files))
    cov.setdefault("exhaustive", bool(getattr(mod, "EXHAUSTIVE", False)))
    ev = {
        "property_id": ctx.pid,
        "tier": ctx.tier,
        "seed": int(ctx.seed),
        "level": "other",
        "coverage": cov,
        "assumptions": ctx.assumptions,
        "wall_s": round(wall, 3),
        "violations": len(violations_new),
    }
    path = os.path.join(ev_dir, f"{ctx.pid}.json")
    tmp = path + ".tmp"
    with open(tmp, "w") as f:
        json.dump(ev, f, indent=1, default=str)
    os.replace(tmp, path)
    return path


def main(argv=None):
    ap = argparse.ArgumentParser()
    ap.add_argument("pid")
    ap.add_argument("--tier", default=os.environ.get("VERIF_TIER", "quick"), choices=["quick", "thorough"])
    ap.add_argument("--repo", default=os.environ.get("VERIF_REPO", "/repo"))
    ap.add_argument("--replay", default=None)
    ap.add_argument("--no-evidence", action="store_true")
    a = ap.parse_args(argv)
    seed = int(os.environ.get("VERIF_SEED", "0") or 0)
    t0 = time.time()
    pid = a.pid
    try:
        ctx, mod = run_check(pid, a.tier, a.repo, seed, a.replay)
    except (Unsupported, AnalysisError) as e:
        print(f"ANALYSIS-ERROR property={pid} {type(e).__name__}: {e}")
        return 2
    except Exception as e:  # never let a traceback look like a violation
        traceback.print_exc()
        print(f"ANALYSIS-ERROR property={pid} internal error {type(e).__name__}: {e}")
        return 2
    try:
        known = [k for k in load_known() if k.get("property") == pid]
        new, hits = [], []
        for v in ctx.violations:
            text = v["key"] + " " + v["message"]
            # (an entry names the failing history: its rule and every one of its 'match' fragments must fit)
            hit = next((k for k in known if k.get("rule") == v["rule"] and all(m in text for m in ([k.get("match", "")] if isinstance(k.get("match", ""), str) else k["match"]))), None)
            if hit is not None:
                hits.append(hit.get("what", v["message"]))
            else:
                new.append(v)
        wall = time.time() - t0
        if not a.no_evidence:
            write_evidence(ctx, mod, new, hits, wall)
        n_ob = len(ctx.obligations)
        n_ok = sum(1 for o in ctx.obligations if o[2])
        print(f"property={pid} tier={a.tier} repo={a.repo} obligations={n_ob} discharged={n_ok} files={len(ctx.files) or len(ctx.program.files)} wall={wall:.1f}s")
        for k, vv in sorted(ctx.cov.items()):
            if isinstance(vv, (int, float, str)):
                print(f"  covered {k}={vv}")
        for h in sorted(set(hits)):
            print(f"KNOWN-FINDING: property={pid} {h}")
        for k in known:
            # a listed finding that this tier's exploration does not reach is still listed (it is a fact about the tree)
            w_ = k.get("what", "")
            if w_ not in hits and k.get("tier") and k.get("tier") != a.tier:
                print(f"KNOWN-FINDING: property={pid} {w_} [reached by the {k['tier']} tier; not explored by this {a.tier} run]")
        if new:
            vdir = os.path.join(VERIF, "evidence", "violations")
            os.makedirs(vdir, exist_ok=True)
            for i, v in enumerate(new):
                path = os.path.join(vdir, f"{pid}-{i}.json")
                with open(path, "w") as f:
                    json.dump({"property": pid, "tier": a.tier, "repo": a.repo, **v}, f, indent=1, default=str)
                print(f"  {v['rule']}: {v['message']}" + (f"  at {v['site']}" if v["site"] else ""))
                print(f"VIOLATION property={pid} replay={path}")
            return 1
        return 0
    except Exception as e:
        traceback.print_exc()
        print(f"ANALYSIS-ERROR property={pid} internal error while reporting {type(e).__name__}: {e}")
        return 2


if __name__ == "__main__":
    # run the module under its package name, so that the exception classes the rule modules import
    # (sa.framework.AnalysisError) are the ones caught here
    from sa.framework import main as _main

    sys.exit(_main())
