"""Abstract StateMachine universes (DESIGN.md 7, shared set-up for C01-C04, C13).

A universe is an abstract subclass of magicbot.StateMachine built the way Python would build
it: abstract user functions are passed through the *real* public decorators (interpreting
`_State.__init__`, `__set_name__`, the eval-built adapter) and `StateMachine.__new__` /
`_build_states` are interpreted on the class.  No private name of the library is used here.
"""
from __future__ import annotations

from .interp import Interp
from .values import ClassV, DictV, Ext, LazyV, Obj, Sym

POS = "POSITIONAL_OR_KEYWORD"


def user_fn(name, params=("tm", "state_tm", "initial_call"), doc=None, extra_params=None):
    """An abstract user state function with the given parameter names after `self`."""
    e = Ext(f"user.{name}", "user", role="userfn")
    plist = [("self", POS)] + [(p, POS) if isinstance(p, str) else p for p in params]
    if extra_params is not None:
        plist = list(extra_params)
    e.meta = {"name": name, "params": plist, "doc": doc, "attrs": {}}
    return e


class StateSpec:
    def __init__(self, name, kind="timed", first=False, must_finish=False, params=("tm", "state_tm", "initial_call"), next_state="lazy", duration=None, doc=None):
        self.name = name
        self.kind = kind  # 'timed' | 'state' | 'default'
        self.first = first
        self.must_finish = must_finish
        self.params = params
        self.next_state = next_state  # 'lazy' | None | str
        self.duration = duration
        self.doc = doc

    def __repr__(self):
        f = []
        if self.first:
            f.append("first")
        if self.must_finish:
            f.append("must_finish")
        return f"{self.kind}:{self.name}" + (f"[{','.join(f)}]" if f else "")


def build_class(it: Interp, modname, base_name, specs, clsname="UserMachine", lazy_objects=False, persist_links=False):
    """Interpret the decorators on abstract user functions and assemble a subclass."""
    mod = it.module(modname)
    base = mod.ns[base_name]
    ns = {"__annotations__": DictV(), "__doc__": None}
    targets = [s.name for s in specs if s.kind != "default"]
    wrappers = {}
    lazies = {}
    for s in specs:
        f = user_fn(s.name, s.params, s.doc)
        if s.kind == "timed":
            dur = s.duration if s.duration is not None else Sym(f"dur_{s.name}", "num", tag="duration", uid=0)
            if s.next_state == "lazy":
                nxt = LazyV(f"next_state[{s.name}]", None)
                nxt.persist = persist_links
                lazies[s.name] = nxt
            else:
                nxt = s.next_state
            dec = it.call(mod.ns["timed_state"], [], {"duration": dur, "next_state": nxt, "first": s.first, "must_finish": s.must_finish})
            w = it.call(dec, [f], {})
        elif s.kind == "state":
            if s.first or s.must_finish:
                dec = it.call(mod.ns["state"], [], {"first": s.first, "must_finish": s.must_finish})
                w = it.call(dec, [f], {})
            else:
                w = it.call(mod.ns["state"], [f], {})
        elif s.kind == "default":
            w = it.call(mod.ns["default_state"], [f], {})
        else:
            raise ValueError(s.kind)
        ns[s.name] = w
        wrappers[s.name] = w
    for name, lz in lazies.items():
        opts = [None] + list(targets)
        if lazy_objects:
            opts += [wrappers[t] for t in targets]
        lz.options = opts
    cls = ClassV(clsname, [base], ns, mod, None, clsname, mutable=True)
    it.finish_class(cls)
    return cls, wrappers


def instantiate(it: Interp, cls):
    return it.call(cls, [], {})
