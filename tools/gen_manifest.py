#!/usr/bin/env python3
"""Regenerates /verif/MANIFEST.json from the rule modules that exist (run after adding a check)."""
import json, os, re, sys
here = os.path.dirname(os.path.dirname(os.path.abspath(__file__)))
props = [json.loads(l) for l in open(os.path.join(here, "properties.jsonl"))]
TECH = {
 "C01": "typestate closure (abstract interpretation of the AST under a most-general client) + monitors",
 "C02": "typestate closure with symbolic per-slot times: per-path timing obligations (affine atoms) + monitors",
 "C03": "typestate closure over machine-shape and all-16-signature universes; value-flow of adapter arguments",
 "C04": "typestate closure + getter postconditions on every transition",
 "C13": "typestate closure of AutonomousStateMachine (name-mangling aware) + monitors",
 "C05": "callback-skeleton extraction by abstract interpretation of the mode loops; ordering/dispatch queries",
 "C06": "callback-skeleton queries: setup placement, enable/disable bracket on all exits",
 "C07": "exception-fork analysis of every callback site (guard must-catch, policy function paths)",
 "C08": "path enumeration of inject.py over abstract requests; phase ordering in _create_components",
 "C09": "symbolic-string key construction, type-table agreement, per-instance binding (who-may-write)",
 "C10": "callback-skeleton placement of the reset loop incl. exception continuations; value flow of reset pairs",
 "C11": "per-mode reachability of the feedback loop, freshness value-flow, symbolic key derivation",
 "C12": "path enumeration of _State validation over signature families; loop-transformer closure of _build_states",
 "C14": "path/typestate analysis of selector scan policy, chooser population and lifecycle",
 "C15": "typestate closure of StatefulAutonomous with class-level (stale) state records + timing obligations",
 "C16": "per-path affine obligations and typestate {live, freed} of NotifierDelay",
 "C17": "interval / monotonicity / power-law normal-form analysis of the expression trees; sibling cross-check",
 "C18": "exact rational-function algebra over the unit table and sensor formulas; algorithm-shape check of convert()",
 "C19": "typestate closure of Toggle; per-path affine obligations for debouncers, filter, watchdog; who-may-write",
 "C20": "table re-derivation (256 entries from the polynomial) + loop-shape obligation",
}
NOTE = "Trusted base: CPython semantics of the analysed subset and the documented behaviour of wpilib/hal/ntcore calls (DESIGN.md section 4); client bounds and written-down inductions per property in DESIGN.md section 7. Source is parsed with ast, never imported or executed."
checks = []; na = []
for p in props:
    pid = p["id"]
    mod = os.path.join(here, "sa", "rules", pid + ".py")
    if os.path.exists(mod):
        src = open(mod).read()
        m = re.search(r'EXPLANATION = \((.*?)\n\)', src, re.S)
        text = ""
        if m:
            text = "".join(re.findall(r'"((?:[^"\\]|\\.)*)"', m.group(1)))
        checks.append({
            "property_id": pid,
            "quick_cmd": f"bin/check {pid} --tier quick",
            "thorough_cmd": f"bin/check {pid} --tier thorough",
            "evidence_file": f"/verif/evidence/{pid}.json",
            "replay_cmd_template": f"bin/check {pid} --replay {{path}}",
            "engine": "pyabs",
            "level_claimed": {"category": "other", "text": (text or p["title"])[:1500], "design_ref": f"DESIGN.md section 7, {pid}"},
            "level_note": NOTE,
            "technique": TECH.get(pid, "static analysis of the syntax tree"),
        })
    else:
        na.append({"property_id": pid, "reason": "check not yet built in this session (design in DESIGN.md section 7); not claimed until its command exists"})
man = {
 "version": 1,
 "setup_cmd": "true",
 "hooks": {"guard": "ROBOTPY_WPILIB_UTILITIES_VERIF", "enable": "no hooks are needed: the checks parse /repo's source and never execute it", "baseline_off_cmd": "cd /repo && /venv/bin/python -m pytest -ra -q -p no:cacheprovider --timeout=900 --continue-on-collection-errors", "source_commits": [], "add_only": True},
 "engines": [{"name": "pyabs", "path": "sa/", "serves_properties": [c["property_id"] for c in checks], "kind_free_text": "stdlib-only abstract interpreter over ast with four analyses (path obligations, typestate closure, callback skeletons, expression algebra)"}],
 "checks": checks,
 "not_applicable": na,
 "notes": "Static analysis only. Exit 0/1/2 = holds / VIOLATION / ANALYSIS-ERROR. known_findings.json lists fixed defects (five fix: commits in /repo) and any open finding.",
}
json.dump(man, open(os.path.join(here, "MANIFEST.json"), "w"), indent=1)
print(len(checks), "checks,", len(na), "not yet claimed")
