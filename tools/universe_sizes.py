#!/usr/bin/env python3
"""Size of every StateMachine universe of a tier (typestates, transitions, seconds, peak RSS of its worker).
usage: tools/universe_sizes.py [quick|thorough] [StateMachine|AutonomousStateMachine]"""
import os, resource, sys, time
import concurrent.futures as cf
import multiprocessing as mp

sys.path.insert(0, os.path.dirname(os.path.dirname(os.path.abspath(__file__))))
from sa.rules import sm, smcommon  # noqa: E402


def one(args):
    t = time.time()
    r = smcommon._one(args)
    rss = resource.getrusage(resource.RUSAGE_SELF).ru_maxrss / 1048576
    return (r.get("universe"), r.get("states"), r.get("transitions"), round(time.time() - t), round(rss, 1), r.get("error"))


def main():
    tier = sys.argv[1] if len(sys.argv) > 1 else "thorough"
    base = sys.argv[2] if len(sys.argv) > 2 else "StateMachine"
    n = len(sm.universes(tier, base))
    jobs = [("/repo", tier, base, i, "full", {"C01.M1", "C01.M2", "C01.M3", "CRASH", "ISO"}) for i in range(n)]
    with cf.ProcessPoolExecutor(max_workers=6, mp_context=mp.get_context("fork")) as pool:
        futs = [pool.submit(one, j) for j in jobs]
        for f in cf.as_completed(futs):
            print(f.result(), flush=True)


if __name__ == "__main__":
    main()
